"""C20-O3: tissue-level geometry -- absolute cell areas add up to the outline's area; neighbours are the other cells
sharing a vertex (also after a cell has been removed and the frame rebuilt)."""
import gc

from symx.runner import Job
from symx.harness import Ob
from symx import tissue
from harness.common import catalogue


def _outline(spec):
    """directed border cycle (point names) of a hole-free tissue whose spec cells are all counter-clockwise."""
    segs = {}
    for cn, path in spec.cells:
        cyc = []
        for ln, d in path:
            names = spec.lines[ln] if d > 0 else spec.lines[ln][::-1]
            cyc += names[:-1]
        for a, b in zip(cyc, cyc[1:] + cyc[:1]):
            segs[(a, b)] = cn
    border = {a: b for (a, b) in segs if (b, a) not in segs}
    start = next(iter(border))
    out = [start]
    while border[out[-1]] != start:
        out.append(border[out[-1]])
    if len(out) != len(border):
        raise ValueError("outline is not a single cycle")
    return out


def areas(env, topo, flip_all):
    import forsys as fs
    spec = catalogue(topo, n_spoke=2, n_border=2)
    coords = {pn: (env.real(f"x_{pn}"), env.real(f"y_{pn}")) for pn in spec.points}
    # every spec cell is counter-clockwise (standard shoelace > 0): a consistent planar embedding
    for cn, path in spec.cells:
        cyc = []
        for ln, d in path:
            names = spec.lines[ln] if d > 0 else spec.lines[ln][::-1]
            cyc += names[:-1]
        sh = 0
        for a, b in zip(cyc, cyc[1:] + cyc[:1]):
            sh = sh + (coords[a][0] * coords[b][1] - coords[b][0] * coords[a][1])
        env.assume(sh > 0)
    b = tissue.build(spec, fs, coords=coords, flips=set(cn for cn, _ in spec.cells) if flip_all else set())
    out = _outline(spec)
    sh = 0
    for a, c in zip(out, out[1:] + out[:1]):
        sh = sh + (coords[a][0] * coords[c][1] - coords[c][0] * coords[a][1])
    tot = 0
    same = env.true()
    for cid, cell in b.cells.items():
        a = cell.get_area()
        tot = tot + abs(a)
        same = same & ((a > 0) if flip_all else (a < 0))
    return [Ob("all-cells-stored-in-the-same-sense-have-the-same-area-sign", same),
            Ob("absolute-cell-areas-add-up-to-the-outline-area", env.eq(tot, 0.5 * sh))]


def neighbours(env, topo, remove):
    import forsys as fs
    spec = catalogue(topo, n_spoke=3) if topo.startswith("T3+") else catalogue(topo, n_spoke=3, n_border=2)
    b = tissue.build(spec, fs)
    fr = fs.frames.Frame(0, b.vertices, b.edges, b.cells, time=0)

    def oracle(sp, cn):
        pts = {p for ln, _ in dict(sp.cells)[cn] for p in sp.lines[ln]}
        return {o for o, path in sp.cells if o != cn and pts & {p for ln, _ in path for p in sp.lines[ln]}}
    obs = []
    ok = True
    for cn, _ in spec.cells:
        cell = fr.cells[b.cid_of[cn]]
        got = {b.cell_name[c] for c in cell.calculate_neighbors()}
        ok = ok and got == oracle(spec, cn) and {b.cell_name[c] for c in cell.neighbors} == got
    obs.append(Ob("neighbours-are-the-other-cells-sharing-a-vertex", ok))
    if remove:
        F = fs.ForSys({0: fr})
        F.remove_cell(0, b.cid_of[remove])
        gc.collect()
        sub = spec.without_cells([remove])
        fr2 = F.frames[0]
        ok2 = set(fr2.cells) == {b.cid_of[cn] for cn, _ in sub.cells}
        for cn, _ in sub.cells:
            cell = fr2.cells[b.cid_of[cn]]
            ok2 = ok2 and {b.cell_name[c] for c in cell.neighbors} == oracle(sub, cn) \
                and {b.cell_name[c] for c in cell.calculate_neighbors()} == oracle(sub, cn)
        obs.append(Ob("neighbours-are-recomputed-after-a-cell-is-removed", ok2))
    return obs


def jobs(tier):
    js = []
    for topo in (("T3", "K3") if tier == "quick" else ("T3", "T4", "K3", "K4", "R7")):
        for flip in (False, True):
            js.append(Job(f"area-sum-{topo}-{'cw' if flip else 'ccw'}", "c20_tissue:areas", dict(topo=topo, flip_all=flip), budget_s=600, weight=3))
    for topo, rm in (("T3", None), ("K3", None), ("K3", "n0"), ("T4", "c1"), ("K4", "n2"), ("R7", "n3"),
                     ("T3+pendant", None), ("T3+2pendants", "c1")):      # cells touching only at vertices shared by two cells
        js.append(Job(f"neighbours-{topo}-remove={rm}", "c20_tissue:neighbours", dict(topo=topo, remove=rm), budget_s=300))
    return js
