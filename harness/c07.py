"""C07 -- results do not depend on labels, storage order or cell orientation.

For a catalogue tissue the real Frame / ForceMatrix / PressureMatrix are built under many labelings (cell-id permutations
with gaps, cyclic shifts of every cell's vertex list, orientation patterns, vertex / edge id maps, cell insertion order) and
compared with the reference labeling in *physical* terms.  Tangents are symbols keyed by the physical (interface, junction),
tensions are symbols keyed by the physical interface, so equality of equations is equality of terms for every value.
The labeling dimension itself is a bounded, enumerated set (stated as such).
"""
import itertools

import numpy as np

from symx.runner import Job
from symx.harness import Ob
from symx import tissue
from harness.common import catalogue, VersorStub

PROPERTY = "C07"

META = dict(
    explanation="Physical comparison of the decomposition, the force equations (per junction: interface -> coefficient pair) and the "
                "pressure equations (per interface: cell -> +-1, right-hand side; up to a global sign) between labelings.",
    bounds=dict(tissues="T3, K3-n0 quick; K3, T4, K4 thorough", cell_ids="all permutations (T3) / 6 permutations (others), ids with gaps, not starting at 0",
                shifts="every cell started at a junction, at an interior vertex and at its last vertex", orientations="all 2^cells patterns (<= 4 cells) / 16 patterns",
                vertex_edge_ids="identity, reversal, offset with gaps, derangement", insertion_order="reference and reversed"),
    outside=["labelings beyond the enumerated set", "topologies beyond the catalogue (e.g. two-sided 'lens' cells)",
             "that a back-end's result is a function of the problem and not of the order of its rows/columns (trusted)"],
    assumptions=["tangent stub keyed by the physical (interface, junction) (contract: C02-A for both ends and both storage directions)",
                 "total curvature of an interface = fixed number per physical interface, negated for the opposite storage direction (C04)",
                 "pressure solve: exact rational inverse; tensions symbolic"],
    trusted=["z3"],
)

VMAPS = {"id": lambda n: (lambda i: i), "rev": lambda n: (lambda i: n - 1 - i), "gap": lambda n: (lambda i: 4 * i + 9),
         "der": lambda n: (lambda i: (i * 7 + 3) % n if n % 7 else (i + 3) % n)}


def _physical(env, fs, spec, b, vs, T):
    import forsys.fmatrix as fmx
    import forsys.pmatrix as pmx
    fr = fs.frames.Frame(0, b.vertices, b.edges, b.cells, time=0)
    out = {}
    # decomposition
    ints = {}
    for be in fr.internal_big_edges:
        ln, d = tissue.line_of_big_edge(b, be.get_vertices_ids())
        ints[ln] = frozenset(b.cell_name[c] for c in be.own_cells)
        be.tension = T[ln]
    out["internal"] = ints
    out["all"] = sorted(str(tissue.line_of_big_edge(b, e)[0]) for e in fr.big_edges_list)
    fm = fmx.ForceMatrix(fr, "none", "none", {}, {}, angle_limit=np.inf)
    cols = [tissue.line_of_big_edge(b, e)[0] for e in fm.big_edges_to_use]
    feq = {}
    for v, r in fm.map_vid_to_row.items():
        pn = b.point_of[v]
        feq[pn] = {cols[ci]: (fm.matrix[r, ci], fm.matrix[r + 1, ci]) for ci in range(len(cols))}
    out["force"] = feq
    pm = pmx.PressureMatrix(fr, {})
    peq = {}
    inv_map = {i: b.cell_name[cid] for cid, i in pm.mapping_order.items()}
    kept = [i for i in range(len(fr.cells)) if i not in pm.removed_columns]
    for e, be in enumerate(pm.big_edges_to_use):
        ln, d = tissue.line_of_big_edge(b, be.get_vertices_ids())
        peq[ln] = ({inv_map[kept[j]]: float(pm.lhs_matrix[e, j]) for j in range(len(kept)) if float(pm.lhs_matrix[e, j]) != 0}, pm.rhs_matrix[e])
    out["pressure"] = peq
    # reported pressures per physical cell (exact rational inverse of the concrete bordered normal matrix, symbolic tensions)
    sol = pm.solve_system(method="lagrange_pressure")
    fr.assign_pressures(sol, pm.mapping_order)
    out["cell_pressure"] = {b.cell_name[cid]: c.pressure for cid, c in fr.cells.items()}
    return out


def labelings(env, topo, vmap, emap, reverse_insertion):
    import forsys as fs
    spec = catalogue(topo, n_spoke=4, bulge=0.12) if topo.startswith("T3+") else catalogue(topo, n_spoke=4, n_border=2, bulge=0.12)
    names = [cn for cn, _ in spec.cells]
    internal = spec.internal_lines()
    T = {ln: env.real(f"T_{ln}") for ln in internal}
    ref_b = tissue.build(spec, fs)
    vs = VersorStub(env, fs, ref_b)
    # cut (as in C04-O1c): the total curvature of an interface is a fixed exact number per physical interface, negated when
    # the interface is stored in the opposite direction (what C04 proves); this keeps the right-hand sides of different
    # labelings exactly comparable (float curvatures of reversed point lists differ in the last bits)
    from fractions import Fraction
    K = {}
    tmp_fr = fs.frames.Frame(0, ref_b.vertices, ref_b.edges, ref_b.cells, time=0)
    for be in tmp_fr.big_edges.values():
        ln, d = tissue.line_of_big_edge(ref_b, be.get_vertices_ids())
        K[ln] = d * Fraction(round(float(be.calculate_total_curvature(normalized=False)), 3)).limit_denominator(1000)
    ref_b = tissue.build(spec, fs)
    vs.builts = ref_b
    orig_curv = fs.edge.BigEdge.calculate_total_curvature

    def cut_curvature(be, normalized=True):
        ln, d = tissue.line_of_big_edge(vs.builts, be.get_vertices_ids())
        k = K[ln] * d
        return k if env.mode == "sym" else float(k)
    fs.edge.BigEdge.calculate_total_curvature = cut_curvature
    # general position (soft)
    for pn in spec.used_junctions():
        for ln in spec.lines_at(pn):
            u = vs.u(ln, pn)
            env.assume(u[0] != 0, soft=True)
            env.assume(u[1] != 0, soft=True)
    try:
        ref = _physical(env, fs, spec, ref_b, vs, T)
        nv, nedges = len(spec.points), sum(len(p) - 1 for p in spec.lines.values())
        perms = list(itertools.permutations(range(len(names))))
        if len(perms) > 6:
            perms = perms[::max(1, len(perms) // 6)][:6]
        flips_all = [set(c for c, bit in zip(names, bits) if bit) for bits in itertools.product((0, 1), repeat=len(names))]
        if len(flips_all) > 16:
            flips_all = flips_all[::len(flips_all) // 16][:16]
        ok_dec, ok_force, ok_press, ok_cellp = env.true(), env.true(), env.true(), env.true()
        count = 0
        for perm in perms:
            for flips in flips_all:
                for shift_kind in (0, 1, -1):
                    shifts = {cn: shift_kind for cn in names} if shift_kind in (0, -1) else {cn: 1 + i for i, cn in enumerate(names)}
                    order = names[::-1] if reverse_insertion else names
                    vs.builts = None
                    b = tissue.build(spec, fs, vid=VMAPS[vmap](nv), eid=VMAPS[emap](nedges), cid=(lambda i, p=perm: 10 + 3 * p[i]),
                                     shifts=shifts, flips=flips, cell_order=order)
                    vs.builts = b
                    got = _physical(env, fs, spec, b, vs, T)
                    count += 1
                    ok_dec = ok_dec & (got["internal"] == ref["internal"]) & (got["all"] == ref["all"])
                    same_f = sorted(got["force"]) == sorted(ref["force"])
                    ok_force = ok_force & same_f
                    if same_f:
                        for pn, row in ref["force"].items():
                            for ln, (rx, ry) in row.items():
                                gx, gy = got["force"][pn].get(ln, (None, None))
                                ok_force = ok_force & (gx is not None)
                                if gx is not None:
                                    ok_force = ok_force & env.eq(gx, rx) & env.eq(gy, ry)
                    for cn, pv in ref["cell_pressure"].items():
                        ok_cellp = ok_cellp & env.eq(got["cell_pressure"][cn], pv, tol=1e-9)
                    same_p = sorted(got["pressure"]) == sorted(ref["pressure"])
                    ok_press = ok_press & same_p
                    if same_p:
                        for ln, (row, rhs) in ref["pressure"].items():
                            grow, grhs = got["pressure"][ln]
                            if grow == row:
                                ok_press = ok_press & env.eq(grhs, rhs, tol=1e-9)
                            elif grow == {k: -v for k, v in row.items()}:
                                ok_press = ok_press & env.eq(grhs, -rhs, tol=1e-9)
                            else:
                                ok_press = ok_press & False
    finally:
        vs.restore()
        fs.edge.BigEdge.calculate_total_curvature = orig_curv
    env.note(f"{count} labelings compared with the reference")
    return [Ob("same-interfaces-and-separated-cells", ok_dec),
            Ob("same-force-equations-per-physical-junction", ok_force),
            Ob("same-pressure-equations-up-to-a-global-sign", ok_press),
            Ob("same-reported-pressure-for-every-physical-cell", ok_cellp),
            Ob("labelings-compared", count >= 6)]


def jobs(tier):
    js = []
    quick = tier == "quick"
    for topo in (("T3", "K3-n0", "T3+pendant") if quick else ("T3", "K3-n0", "T3+pendant", "T3+2pendants", "T4", "K3", "K4")):
        for vmap, emap in ((("id", "gap"), ("der", "rev")) if quick else (("id", "id"), ("id", "gap"), ("der", "rev"), ("gap", "der"), ("rev", "id"))):
            for rev in (False, True):
                if quick and rev and vmap == "der":
                    continue
                js.append(Job(f"labelings-{topo}-v{vmap}-e{emap}-rev{int(rev)}", "c07:labelings",
                              dict(topo=topo, vmap=vmap, emap=emap, reverse_insertion=rev), budget_s=1500, max_paths=50,
                              opts=dict(cheap_forks=True), weight=5))
    return js
