"""Library contract stubs (DESIGN.md section 2.3).  Three modes, selected by the current harness env:
   None  -> transparent (real library)
   conc  -> real library + capture of arguments/results (replay)
   sym   -> nondeterministic result constrained by the documented contract, + capture
Every stub that answered symbolically is counted in HITS (reported in the evidence)."""
import fractions
import types

import numpy as np
import z3

from . import core, shim
from .core import SymReal, SymBool, Def, has_sym, Inconclusive, lift
from .shim import SymArray

Fraction = fractions.Fraction

ENV = None
HITS = {}
CAP = {}            # name -> list of captured calls
CIRCLES = {}        # frozenset of (x term id, y term id) -> (ox, oy, r)
_REAL = {}
_INSTALLED = False
OPTS = {}


def _hit(n):
    HITS[n] = HITS.get(n, 0) + 1


def reset(env):
    global ENV
    ENV = env
    CAP.clear()
    CIRCLES.clear()
    OPTS.clear()


def sym_mode():
    return ENV is not None and ENV.mode == "sym" and core.CTX is not None


def cap(name, **kw):
    CAP.setdefault(name, []).append(kw)


def fresh(name):
    return SymReal(core.CTX.newvar(name))


def _key_pts(xs, ys):
    return frozenset((lift(x).get_id(), lift(y).get_id()) for x, y in zip(xs, ys))


def register_circle(vertices, ox, oy, r=None):
    """harness: the points of `vertices` lie on the circle (ox, oy, r)."""
    if ENV is not None and ENV.mode == "sym":
        xs = [v.x for v in vertices]
        ys = [v.y for v in vertices]
        CIRCLES[_key_pts(xs, ys)] = (ox, oy, r, [lift(x) for x in xs])


# ---------------------------------------------------------------------------- circle fits
def leastsq(f, x0, *a, **k):
    if not sym_mode():
        return _REAL["leastsq"](f, x0, *a, **k)
    cells = {n: c.cell_contents for n, c in zip(f.__code__.co_freevars, f.__closure__ or ())}
    if "xs" not in cells or "ys" not in cells:
        return _REAL["leastsq"](f, x0, *a, **k)      # not forsys's circle fit (e.g. lmfit's own use of MINPACK)
    xs, ys = list(cells["xs"]), list(cells["ys"])
    if not has_sym(xs) and not has_sym(ys) and not has_sym(list(x0)):
        return _REAL["leastsq"](f, x0, *a, **k)
    _hit("leastsq")
    key = _key_pts(xs, ys)
    if key in CIRCLES:
        ox, oy = CIRCLES[key][0], CIRCLES[key][1]
        return np.array([ox, oy], dtype=object).view(SymArray), 1
    if len(xs) == 2:
        # MINPACK stops at a zero residual: the start value (the midpoint) is equidistant from both points
        return np.array([x0[0], x0[1]], dtype=object).view(SymArray), 1
    memo = core.CTX.memo.setdefault("leastsq", {})
    if key not in memo:
        memo[key] = (fresh("fitx"), fresh("fity"))
    return np.array(memo[key], dtype=object).view(SymArray), 1


def taubinSVD(pts, *a, **k):
    if not sym_mode() or not has_sym([list(p) for p in pts]):
        return _REAL["taubinSVD"](pts, *a, **k)
    _hit("taubinSVD")
    xs = [p[0] for p in pts]
    ys = [p[1] for p in pts]
    key = _key_pts(xs, ys)
    if key in CIRCLES:
        ox, oy, r, _ = CIRCLES[key]
        return ox, oy, r, 0.0
    memo = core.CTX.memo.setdefault("leastsq", {})
    if key not in memo:
        memo[key] = (fresh("fitx"), fresh("fity"))
    return memo[key][0], memo[key][1], fresh("fitr"), 0.0


# ---------------------------------------------------------------------------- non-negative least squares
def _obj2d(A):
    A = np.asarray(A, dtype=object)
    return A


def _kkt_solution(tag, A, b, lower_zero=True):
    """fresh x with the KKT conditions of min ||Ax-b||^2, x >= 0; a function of (A, b).
    Residuals r = A x - b and the gradient G = A^T r are named auxiliary variables (so that sign lemmas about
    products stay small).  Returns (x, r, G) as lists of SymReal."""
    c = core.CTX
    A = _obj2d(A)
    b = np.asarray(b, dtype=object).reshape(-1)
    m, n = A.shape
    key = (tag, tuple(lift(v).get_id() for v in A.flat), tuple(lift(v).get_id() for v in b))
    memo = c.memo.setdefault("kkt", {})
    if key in memo:
        return memo[key][0]
    xs = [c.newvar(f"{tag}x{j}_") for j in range(n)]
    rs = [c.newvar(f"{tag}r{i}_") for i in range(m)]
    gs = [c.newvar(f"{tag}g{j}_") for j in range(n)]
    At = [[lift(A[i, j]) for j in range(n)] for i in range(m)]
    bt = [lift(v) for v in b]
    for i in range(m):
        c.add_def(Def(rs[i], "kkt-residual", rs[i] == z3.Sum([At[i][j] * xs[j] for j in range(n)]) - bt[i]))
    for j in range(n):
        c.add_def(Def(gs[j], "kkt-gradient", gs[j] == z3.Sum([At[i][j] * rs[i] for i in range(m)])))
    cons = []
    for j in range(n):
        # complementarity as an inequality (with x, g >= 0 it is the equality; z3's simplifier would turn
        # x*g == 0 into a disjunction, which hides the monomial from the linear relaxation)
        cons += [xs[j] >= 0, gs[j] >= 0, xs[j] * gs[j] <= 0]
    exact = z3.And(*cons)
    abstract = z3.And(*[x >= 0 for x in xs])
    c.add_def(Def(xs, "kkt", exact, abstract))
    out = ([SymReal(x) for x in xs], [SymReal(r) for r in rs], [SymReal(g) for g in gs])
    memo[key] = (out, A, b)
    return out


def nnls(A, b, maxiter=None, **k):
    if ENV is None:
        return _REAL["nnls"](A, b, maxiter=maxiter, **k)
    if ENV.mode == "conc" or not sym_mode() or not (has_sym(A) or has_sym(b)):
        Af = np.asarray(A, dtype=float)
        bf = np.asarray(b, dtype=float)
        x, rn = _REAL["nnls"](Af, bf, maxiter=maxiter, **k)
        cap("nnls", A=Af, b=bf, x=x)
        return x, rn
    _hit("nnls")
    x, r, g = _kkt_solution("nn", A, b)
    cap("nnls", A=_obj2d(A), b=np.asarray(b, dtype=object).reshape(-1), x=x, r=r, g=g)
    return np.array(x, dtype=object).view(SymArray), fresh("rnorm")


class _LsqResult(dict):
    def __getattr__(self, n):
        return self[n]


def lsq_linear(A, b, bounds=(-np.inf, np.inf), **k):
    if ENV is None:
        return _REAL["lsq_linear"](A, b, bounds=bounds, **k)
    if ENV.mode == "conc" or not sym_mode() or not (has_sym(A) or has_sym(b)):
        Af = np.asarray(A, dtype=float)
        bf = np.asarray(b, dtype=float)
        r = _REAL["lsq_linear"](Af, bf, bounds=bounds, **k)
        cap("lsq_linear", A=Af, b=bf, x=r["x"], bounds=bounds)
        return r
    _hit("lsq_linear")
    lo, hi = bounds
    if not (np.all(np.asarray(lo) == 0) and np.all(np.isinf(np.asarray(hi, dtype=float)))):
        raise Inconclusive(f"lsq_linear stub only models bounds (0, inf), got {bounds}")
    x, r, g = _kkt_solution("ll", A, b)
    cap("lsq_linear", A=_obj2d(A), b=np.asarray(b, dtype=object).reshape(-1), x=x, r=r, g=g, bounds=bounds)
    return _LsqResult(x=np.array(x, dtype=object).view(SymArray), success=True)


# ---------------------------------------------------------------------------- lmfit
def zdiff(t, v):
    """d t / d v for polynomial z3 Real terms."""
    if z3.is_rational_value(t):
        return z3.RealVal(0)
    if z3.is_const(t):
        return z3.RealVal(1) if t.get_id() == v.get_id() else z3.RealVal(0)
    k = t.decl().kind()
    ch = t.children()
    if k == z3.Z3_OP_ADD:
        return z3.Sum([zdiff(c, v) for c in ch])
    if k == z3.Z3_OP_SUB:
        r = zdiff(ch[0], v)
        for c in ch[1:]:
            r = r - zdiff(c, v)
        return r
    if k == z3.Z3_OP_UMINUS:
        return -zdiff(ch[0], v)
    if k == z3.Z3_OP_MUL:
        tot = []
        for i in range(len(ch)):
            d = zdiff(ch[i], v)
            if z3.is_rational_value(d) and d.numerator_as_long() == 0:
                continue
            term = d
            for j in range(len(ch)):
                if j != i:
                    term = term * ch[j]
            tot.append(term)
        return z3.Sum(tot) if tot else z3.RealVal(0)
    if core.vars_of(t).isdisjoint({v.decl().name()}):
        return z3.RealVal(0)
    raise Inconclusive(f"zdiff: unsupported term {t.decl()}")


class _SymParam:
    def __init__(self, value, vmin):
        self.value = value
        self.min = vmin


class SymParameters(dict):
    """stands in for lmfit.Parameters while a symbolic exploration is active (values may be symbols)."""

    def add(self, name, value=None, vary=True, min=-np.inf, max=np.inf, **k):
        self[name] = _SymParam(value, min)
        self[name].max = max
        self[name].vary = vary


def lmfit_parameters(*a, **k):
    if sym_mode():
        return SymParameters()
    return _REAL["lmfit_Parameters"](*a, **k)


class _MinResult:
    def __init__(self, params):
        self.params = params
        self.success = True


def lmfit_minimize(cost, params, args=(), **k):
    if ENV is None:
        return _REAL["lmfit_minimize"](cost, params, args=args, **k)
    symbolic = sym_mode() and (any(has_sym(a) for a in args) or any(isinstance(params[n].value, SymReal) for n in params))
    if not symbolic:
        if isinstance(params, SymParameters):
            real = _REAL["lmfit_Parameters"]()
            for n in params:
                real.add(n, float(params[n].value), min=params[n].min, max=getattr(params[n], "max", np.inf))
            params = real
        args_f = tuple(np.asarray(a, dtype=float) if isinstance(a, np.ndarray) else a for a in args)
        r = _REAL["lmfit_minimize"](cost, params, args=args_f, **k)
        cap("lmfit", args=args_f, x0=[params[n].value for n in params], x=[r.params[n].value for n in r.params],
            mins=[params[n].min for n in params])
        return r
    _hit("lmfit.minimize")
    c = core.CTX
    names = list(params)
    mins = [params[n].min for n in names]
    x0 = [params[n].value for n in names]
    # linear cost  A p - b  with all lower bounds 0: the stationarity contract is exactly the KKT contract of nnls
    if len(args) == 2 and all(mn == 0 for mn in mins):
        try:
            A2 = np.asarray(args[0], dtype=object)
            b2 = np.asarray(args[1], dtype=object).reshape(-1)
            if A2.ndim == 2 and A2.shape[1] == len(names) and A2.shape[0] == len(b2):
                probe = [c.newvar(f"lmprobe{j}_") for j in range(len(names))]
                sp = {n: _SymParam(SymReal(p), mn) for n, p, mn in zip(names, probe, mins)}
                res = np.asarray(cost(sp, *args), dtype=object).reshape(-1)
                side = {}
                linear = len(res) == len(b2)
                for i in range(len(b2)):
                    if not linear:
                        break
                    want = z3.Sum([lift(A2[i, j]) * probe[j] for j in range(len(names))]) - lift(b2[i])
                    linear = core._padd(core.poly_of(lift(res[i]), side), core.poly_of(want, side), -1) == {}
                if linear:
                    xs, rs, gs = _kkt_solution("lm", A2, b2)
                    cap("lmfit", args=args, x0=x0, x=xs, r=rs, g=gs, A=A2, b=b2, mins=mins)
                    return _MinResult({n: _SymParam(x, mn) for n, x, mn in zip(names, xs, mins)})
        except Inconclusive:
            pass
    key = ("lm", id(cost.__code__), tuple(lift(v).get_id() for a in args for v in np.asarray(a, dtype=object).flat), len(names))
    memo = c.memo.setdefault("kkt", {})
    if key not in memo:
        ps = [c.newvar(f"lm{j}_") for j in range(len(names))]
        sp = {n: _SymParam(SymReal(p), mn) for n, p, mn in zip(names, ps, mins)}
        res = cost(sp, *args)
        res = [lift(v) for v in np.asarray(res, dtype=object).reshape(-1)]
        cons = []
        for p, mn in zip(ps, mins):
            g = z3.Sum([r * zdiff(r, p) for r in res])
            if mn is None or mn == -np.inf:
                cons.append(g == 0)
            else:
                lo = z3.RealVal(str(Fraction(float(mn))))
                cons += [p >= lo, g >= 0, (p - lo) * g <= 0]
        abstract = z3.And(*[p >= z3.RealVal(str(Fraction(float(mn)))) for p, mn in zip(ps, mins) if mn is not None and mn != -np.inf] or [z3.BoolVal(True)])
        c.add_def(Def(ps, "kkt", z3.And(*cons), abstract))
        memo[key] = ([SymReal(p) for p in ps], None, None)
    xs = memo[key][0]
    cap("lmfit", args=args, x0=x0, x=xs, mins=mins)
    return _MinResult({n: _SymParam(x, mn) for n, x, mn in zip(names, xs, mins)})


# ---------------------------------------------------------------------------- inverse / eig
def _exact_inverse(A):
    n = A.shape[0]
    M = [[Fraction(float(A[i, j])) if not isinstance(A[i, j], Fraction) else A[i, j] for j in range(n)] +
         [Fraction(int(i == j)) for j in range(n)] for i in range(n)]
    for col in range(n):
        piv = next((r for r in range(col, n) if M[r][col] != 0), None)
        if piv is None:
            raise np.linalg.LinAlgError("Singular matrix")
        M[col], M[piv] = M[piv], M[col]
        pv = M[col][col]
        M[col] = [x / pv for x in M[col]]
        for r in range(n):
            if r != col and M[r][col] != 0:
                f = M[r][col]
                M[r] = [x - f * y for x, y in zip(M[r], M[col])]
    out = np.empty((n, n), dtype=object)
    for i in range(n):
        for j in range(n):
            out[i, j] = M[i][n + j]
    out = out.view(RecExactInverse)
    out._A = A
    return out


class RecExactInverse(SymArray):
    """exact rational inverse of a concrete matrix that records what it is multiplied with."""

    def __matmul__(self, b):
        x = np.asarray(self).view(SymArray) @ b
        cap("inv", A=getattr(self, "_A", None), b=b, x=list(np.asarray(x, dtype=object).reshape(-1)))
        return x


class SymInverse:
    """inverse of a symbolic square matrix, usable only as `inv @ b`."""
    __array_priority__ = 2000

    def __init__(self, A):
        self.A = A

    def __matmul__(self, b):
        c = core.CTX
        A = self.A
        n = A.shape[0]
        b = np.asarray(b, dtype=object)
        if b.ndim != 1:
            raise Inconclusive("SymInverse @ matrix")
        key = ("inv", tuple(lift(v).get_id() for v in A.flat), tuple(lift(v).get_id() for v in b))
        memo = c.memo.setdefault("kkt", {})
        if key not in memo:
            xs = [c.newvar(f"inv{j}_") for j in range(n)]
            cons = [z3.Sum([lift(A[i, j]) * xs[j] for j in range(n)]) == lift(b[i]) for i in range(n)]
            c.add_def(Def(xs, "inv", z3.And(*cons)))
            memo[key] = ([SymReal(x) for x in xs], A, b)
        x = memo[key][0]
        cap("inv", A=A, b=b, x=x)
        return np.array(x, dtype=object).view(SymArray)

    def __getitem__(self, idx):
        """column j of the inverse: the vector c with A c = e_j (other index patterns are not modelled)"""
        c = core.CTX
        A = self.A
        n = A.shape[0]
        if not (isinstance(idx, tuple) and len(idx) == 2 and idx[0] == slice(None) and isinstance(idx[1], (int, np.integer))):
            raise Inconclusive(f"symbolic inverse indexed with {idx!r}")
        j = int(idx[1]) % n
        key = ("invcol", tuple(lift(v).get_id() for v in A.flat), j)
        memo = c.memo.setdefault("kkt", {})
        if key not in memo:
            xs = [c.newvar(f"invc{j}_{i}_") for i in range(n)]
            cons = [z3.Sum([lift(A[i, k]) * xs[k] for k in range(n)]) == (1 if i == j else 0) for i in range(n)]
            c.add_def(Def(xs, "inv", z3.And(*cons)))
            memo[key] = ([SymReal(x) for x in xs], A, None)
        return np.array(memo[key][0], dtype=object).view(SymArray)

    def __array__(self, *a, **k):
        raise Inconclusive("symbolic inverse used other than as inv @ b")


def linalg_inv(A):
    if ENV is None:
        return np.linalg.inv(A)
    Aobj = np.asarray(A)
    if Aobj.ndim != 2 or Aobj.shape[0] != Aobj.shape[1]:
        cap("inv_attempt", shape=Aobj.shape, outcome="not-square")
        raise np.linalg.LinAlgError("Last 2 dimensions of the array must be square")
    if ENV.mode == "conc" or not sym_mode():
        try:
            r = np.linalg.inv(np.asarray(A, dtype=float))
        except np.linalg.LinAlgError:
            cap("inv_attempt", shape=Aobj.shape, outcome="singular")
            raise
        cap("inv_attempt", shape=Aobj.shape, outcome="regular", A=np.asarray(A, dtype=float))
        if ENV.mode == "conc":
            r = r.view(RecInverse)
            r._A = np.asarray(A, dtype=float)
        return r
    if not has_sym(Aobj):
        _hit("inv(exact rational)")
        try:
            r = _exact_inverse(Aobj)
        except np.linalg.LinAlgError:
            cap("inv_attempt", shape=Aobj.shape, outcome="singular")
            raise
        cap("inv_attempt", shape=Aobj.shape, outcome="regular", A=Aobj)
        return r
    _hit("inv(symbolic)")
    c = core.CTX
    n = Aobj.shape[0]
    if OPTS.get("inv_outcomes", "both") == "regular":
        singular = False
    else:
        reg = z3.Bool(f"regular!{c.fresh}")
        c.fresh += 1
        singular = not bool(SymBool(reg))      # the regular outcome is explored first
    if singular:
        ns = [c.newvar("null") for _ in range(n)]
        c.assume(z3.Sum([x * x for x in ns]) == 1)
        for i in range(n):
            c.assume(z3.Sum([lift(Aobj[i, j]) * ns[j] for j in range(n)]) == 0)
        cap("inv_attempt", shape=Aobj.shape, outcome="singular")
        raise np.linalg.LinAlgError("Singular matrix")
    cap("inv_attempt", shape=Aobj.shape, outcome="regular", A=Aobj)
    return SymInverse(Aobj.view(SymArray))


class RecInverse(np.ndarray):
    """real inverse (concrete replay) that records `inv @ b`."""

    def __matmul__(self, b):
        x = np.asarray(self) @ np.asarray(b, dtype=float)
        cap("inv", A=getattr(self, "_A", None), b=np.asarray(b, dtype=float), x=x)
        return x


class EigToken:
    def __init__(self, S):
        self.S = S


def linalg_eig(S):
    if sym_mode() and has_sym(S):
        _hit("eig")
        return EigToken(np.asarray(S, dtype=object))
    if ENV is not None:
        S = np.asarray(S, dtype=float)
    return np.linalg.eig(S)


def install():
    global _INSTALLED
    if _INSTALLED:
        return
    import scipy.optimize as sco
    import circle_fit as cfit
    _REAL["leastsq"] = sco.leastsq
    _REAL["nnls"] = sco.nnls
    _REAL["lsq_linear"] = sco.lsq_linear
    _REAL["taubinSVD"] = cfit.taubinSVD
    sco.leastsq = leastsq
    sco.nnls = nnls
    sco.lsq_linear = lsq_linear
    cfit.taubinSVD = taubinSVD
    try:
        import lmfit
        _REAL["lmfit_minimize"] = lmfit.minimize
        _REAL["lmfit_Parameters"] = lmfit.Parameters
        lmfit.minimize = lmfit_minimize
        lmfit.Parameters = lmfit_parameters
    except ModuleNotFoundError:
        pass
    shim.PROXY.linalg.over["inv"] = linalg_inv
    shim.PROXY.linalg.over["eig"] = linalg_eig
    _INSTALLED = True
