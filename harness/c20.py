"""C20 -- cell geometry primitives (Cell.get_area / get_area_sign / get_perimeter / get_next_vertex /
get_previous_vertex / calculate_neighbors), executed symbolically on polygons with symbolic vertices."""
import numpy as np

from symx.runner import Job
from symx.harness import Ob

PROPERTY = "C20"

META = dict(
    explanation="Polygons with n symbolic vertices (no convexity assumed for the identities); star-shaped polygons "
                "(every consecutive pair turns counter-clockwise about a symbolic interior point) for the sign convention.",
    bounds=dict(polygon_vertices="3..8 (quick 3..6)", perimeter_scaling_vertices="3..4", tissues="T3, K3 catalogue tissues with symbolic junction coordinates"),
    outside=["polygons with more than 8 vertices", "floating-point rounding (reals)", "non star-shaped simple polygons for the sign obligation"],
    assumptions=["floats modelled as reals", "Cell.__post_init__'s circle fit (scipy leastsq) replaced by an unconstrained result (not used by these methods)"],
    trusted=["z3 4/5 nonlinear real arithmetic", "numpy object-dtype dot/roll semantics"],
)


def _cell(fs, cid, pts, start_id=0):
    vs = [fs.vertex.Vertex(start_id + i, p[0], p[1]) for i, p in enumerate(pts)]
    return fs.cell.Cell(cid, vs), vs


def identities(env, n, what):
    import forsys as fs
    xs = env.reals("x", n)
    ys = env.reals("y", n)
    pts = list(zip(xs, ys))
    c0, v0 = _cell(fs, 0, pts)
    a0 = c0.get_area()
    obs = []
    if what == "area":
        # explicit shoelace oracle (standard orientation: counter-clockwise positive) -- forsys uses the opposite sign
        std = 0
        for i in range(n):
            j = (i + 1) % n
            std = std + (xs[i] * ys[j] - xs[j] * ys[i])
        obs.append(Ob("area-is-minus-shoelace", env.eq(a0, -0.5 * std)))
        c1, _ = _cell(fs, 1, pts[::-1], 100)
        obs.append(Ob("reversal-negates-area", env.eq(c1.get_area(), -a0)))
        for sh in range(1, n):
            c2, _ = _cell(fs, 2 + sh, pts[sh:] + pts[:sh], 200 + 20 * sh)
            obs.append(Ob(f"shift{sh}-keeps-area", env.eq(c2.get_area(), a0)))
        ta, tb = env.real("ta"), env.real("tb")
        c3, _ = _cell(fs, 50, [(x + ta, y + tb) for x, y in pts], 600)
        obs.append(Ob("translation-keeps-area", env.eq(c3.get_area(), a0)))
        k = env.real("k")
        c4, _ = _cell(fs, 51, [(k * x, k * y) for x, y in pts], 700)
        obs.append(Ob("scaling-squares-area", env.eq(c4.get_area(), k * k * a0)))
        sg = c0.get_area_sign()
        obs.append(Ob("sign-matches-area", (a0 * sg >= 0) & ((a0 == 0) == (sg == 0))))
    elif what == "perimeter":
        for i in range(n):
            for j in range(i + 1, n):
                env.assume((xs[i] != xs[j]) | (ys[i] != ys[j]), soft=True)
        env.assume(a0 != 0)      # a simple polygon encloses a non-zero area
        p0 = c0.get_perimeter()
        # oracle: length of the closed cycle
        tot = 0
        for i in range(n):
            j = (i + 1) % n
            tot = tot + np.sqrt((xs[i] - xs[j]) ** 2 + (ys[i] - ys[j]) ** 2)
        obs.append(Ob("perimeter-is-cycle-length", env.eq(p0, tot)))
        c1, _ = _cell(fs, 1, pts[::-1], 100)
        obs.append(Ob("reversal-keeps-perimeter", env.eq(c1.get_perimeter(), p0)))
        for sh in range(1, n):
            c2, _ = _cell(fs, 2 + sh, pts[sh:] + pts[:sh], 200 + 20 * sh)
            obs.append(Ob(f"shift{sh}-keeps-perimeter", env.eq(c2.get_perimeter(), p0)))
        ta, tb = env.real("ta"), env.real("tb")
        c3, _ = _cell(fs, 50, [(x + ta, y + tb) for x, y in pts], 600)
        obs.append(Ob("translation-keeps-perimeter", env.eq(c3.get_perimeter(), p0)))
    elif what == "perimeter-scaling":
        for i in range(n):
            j = (i + 1) % n
            env.assume((xs[i] != xs[j]) | (ys[i] != ys[j]), soft=True)
        k = env.real("k")
        env.assume(k != 0)
        env.assume(a0 != 0)
        p0 = c0.get_perimeter()
        c4, _ = _cell(fs, 51, [(k * x, k * y) for x, y in pts], 700)
        # cut (encoding rule 5): per-segment lemmas |k p_i - k p_j| = |k| |p_i - p_j|, each decided on its own
        lem = []
        for i in range(n):
            j = (i + 1) % n
            for (a, b) in ((i, j), (j, i)):
                l1 = np.sqrt((k * xs[a] - k * xs[b]) ** 2 + (k * ys[a] - k * ys[b]) ** 2)
                l0 = np.sqrt((xs[a] - xs[b]) ** 2 + (ys[a] - ys[b]) ** 2)
                lem.append(env.eq(l1, abs(k) * l0))
        obs.append(Ob("scaling-scales-perimeter", env.eq(c4.get_perimeter(), abs(k) * p0), lemmas=lem))
    return obs


def orientation(env, n):
    """star-shaped polygon, counter-clockwise in a y-up frame: area negative, next = previous list element."""
    import forsys as fs
    # normalised: the interior point is the origin; translation invariance of the area (hence of its sign) is the
    # separate obligation translation-keeps-area (encoding rule 4)
    px, py = 0, 0
    xs = env.reals("x", n)
    ys = env.reals("y", n)
    for i in range(n):
        j = (i + 1) % n
        cr = (xs[i] - px) * (ys[j] - py) - (xs[j] - px) * (ys[i] - py)
        env.assume(cr > 0)
    pts = list(zip(xs, ys))
    c0, v0 = _cell(fs, 0, pts)
    c1, v1 = _cell(fs, 1, pts[::-1], 100)
    obs = [Ob("ccw-area-negative", c0.get_area() < 0), Ob("cw-area-positive", c1.get_area() > 0),
           Ob("ccw-sign", c0.get_area_sign() == -1), Ob("cw-sign", c1.get_area_sign() == 1)]
    # navigation: geometric sense.  In both storages get_next_vertex must move clockwise (y up), i.e. to the
    # geometric predecessor in the counter-clockwise order; get_previous_vertex the other way.
    ok_next = True
    ok_prev = True
    for i in range(n):
        ok_next = ok_next and (c0.get_next_vertex(v0[i]) is v0[(i - 1) % n])
        ok_prev = ok_prev and (c0.get_previous_vertex(v0[i]) is v0[(i + 1) % n])
        # reversed storage: v1[i] is point n-1-i; its geometric predecessor point n-2-i is v1[i+1]
        ok_next = ok_next and (c1.get_next_vertex(v1[i]) is v1[(i + 1) % n])
        ok_prev = ok_prev and (c1.get_previous_vertex(v1[i]) is v1[(i - 1) % n])
    obs.append(Ob("next-walks-in-area-sign-sense", ok_next))
    obs.append(Ob("previous-walks-against-it", ok_prev))
    return obs


def jobs(tier):
    ns = range(3, 9) if tier == "thorough" else range(3, 7)
    js = []
    for n in ns:
        js.append(Job(f"area-identities-n{n}", "c20:identities", dict(n=n, what="area"), budget_s=300))
        js.append(Job(f"orientation-n{n}", "c20:orientation", dict(n=n), budget_s=300))
    for n in (ns if tier == "thorough" else range(3, 6)):
        js.append(Job(f"perimeter-identities-n{n}", "c20:identities", dict(n=n, what="perimeter"), budget_s=600, weight=3))
    for n in (3, 4):
        js.append(Job(f"perimeter-scaling-n{n}", "c20:identities", dict(n=n, what="perimeter-scaling"), budget_s=600, weight=5))
    from harness import c20_tissue
    js += c20_tissue.jobs(tier)
    return js
