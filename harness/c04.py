"""C04 -- pressure step: Young-Laplace equations with a zero-sum least-squares solution.

O1a  real BigEdge.calculate_curvature: per-point curvature has the sign of the turning direction (uniformly sampled arcs via
     Chebyshev recurrence, n = 3..7(9); arbitrary 3-point arcs).
O1b  real calculate_total_curvature: sign from per-point signs (cut), reversal of the stored order negates it.
O1c  real PressureMatrix.get_row / Cell.get_area_sign: the equation is p(centre side) - p(other) = T |kappa| for every
     storage direction and every orientation pattern of the two cells (symbolic coordinates).
O2   turning estimate: zero for collinear points, unchanged by scaling / translation, negated by reflection.
O3   real _build_matrix / solve_system('lagrange_pressure') / add_lagrange_multiplier / assign_pressures: normal equations
     bordered by sum-zero, linear in the tensions, zero for cells without internal interface, own column.
Not claimed (transcendental): '(n-2)/(n-1) of the true angle within 3%', correlation >= 0.9 with analytic pressures.
"""
import numpy as np

from symx.runner import Job
from symx.harness import Ob
from symx import stubs, tissue
from harness.common import catalogue

PROPERTY = "C04"

META = dict(
    explanation="Curvature code on symbolic arcs (normalised circle, rotation and opening angle symbolic), pressure rows on two cells "
                "with symbolic coordinates and the curvature cut to a symbol of known sign, pressure solve with symbolic tensions on "
                "concrete catalogue geometry (exact rational inverse).",
    bounds=dict(uniform_arcs="n = 3..7 (9 thorough), total turning < pi", free_arcs="3 points", collinear="n = 3..6",
                rows="T3 shared interface, 2 storage directions x 4 orientation patterns x 2 turning directions",
                solve="T3, K3, K3-n0, T3+pendant (cell without internal interface), symbolic tensions"),
    outside=["accuracy clause '(n-2)/(n-1) of the true turning angle within 3%' (transcendental)",
             "correlation >= 0.9 with analytic Young-Laplace pressures (statistic over transcendental geometry)",
             "non-uniformly sampled arcs with n >= 4 for the per-point sign (np.gradient mixes points two apart)",
             "floating-point rounding"],
    assumptions=["np.gradient = its documented second-order formula with unit spacing (shim, validated against numpy)",
                 "np.linalg.inv on the concrete bordered normal matrix = exact rational inverse",
                 "O1c: calculate_total_curvature replaced by a symbol whose sign is what O1a/O1b prove"],
    trusted=["z3"],
)


def _bigedge(fs, pts, first_id=0):
    vs = [fs.vertex.Vertex(first_id + i, p[0], p[1]) for i, p in enumerate(pts)]
    es = [fs.edge.SmallEdge(first_id + i, vs[i], vs[i + 1]) for i in range(len(pts) - 1)]
    for v in vs:
        v.ownCells = [0, 1]
    be = fs.edge.BigEdge(first_id, vs)
    be._keep = es
    return be


def _uniform_arc(env, n, ccw):
    """p_i = R(a,b) (cos i*theta, sin i*theta): Chebyshev recurrence in (c, s) = (cos theta, sin theta)."""
    a, b = env.unit("rot")
    c, s = env.unit("step")
    env.assume(s > 0 if ccw else s < 0)
    cs = [(1, 0), (c, s)]
    for i in range(2, n):
        cs.append((cs[-1][0] * c - cs[-1][1] * s, cs[-1][1] * c + cs[-1][0] * s))
    for i in range(1, n):
        env.assume(cs[i][1] > 0 if ccw else cs[i][1] < 0)       # total turning (n-1) theta < pi
    return [(a * ci - b * si, b * ci + a * si) for ci, si in cs]


def pointwise_sign_uniform(env, n, ccw):
    import forsys as fs
    be = _bigedge(fs, _uniform_arc(env, n, ccw))
    ks = be.calculate_curvature()
    return [Ob(f"curvature-{i}-has-the-sign-of-the-turning", (ks[i] < 0) if ccw else (ks[i] > 0)) for i in range(n)]


def pointwise_sign_3pt(env, ccw):
    import forsys as fs
    cs = [env.unit(f"p{i}") for i in range(3)]
    for i in range(2):
        (c0, s0), (c1, s1) = cs[i], cs[i + 1]
        cr = c0 * s1 - s0 * c1
        env.assume(cr > 0 if ccw else cr < 0)
        env.assume(c0 * c1 + s0 * s1 > 0)
    cr = cs[0][0] * cs[2][1] - cs[0][1] * cs[2][0]
    env.assume(cr > 0 if ccw else cr < 0)
    be = _bigedge(fs, cs)
    ks = be.calculate_curvature()
    return [Ob(f"curvature-{i}-has-the-sign-of-the-turning", (ks[i] < 0) if ccw else (ks[i] > 0)) for i in range(3)]


def total_from_pointwise(env, n, negative):
    """cut: per-point curvatures are fresh symbols of one sign; the real trapezoid sum keeps that sign."""
    import forsys as fs
    xs, ys = env.reals("x", n), env.reals("y", n)
    for i in range(n - 1):
        env.assume((xs[i] != xs[i + 1]) | (ys[i] != ys[i + 1]))
    ks = env.reals("k", n)
    for k in ks:
        env.assume(k < 0 if negative else k > 0)
    be = _bigedge(fs, list(zip(xs, ys)))
    if env.mode == "sym":
        from symx.shim import SymArray
        be.calculate_curvature = lambda: np.array(ks, dtype=object).view(SymArray)
    else:
        be.calculate_curvature = lambda: np.array(ks, dtype=float)
    tot = be.calculate_total_curvature(normalized=False)
    totn = be.calculate_total_curvature(normalized=True)
    return [Ob("total-has-the-sign-of-the-pointwise-curvatures", (tot < 0) if negative else (tot > 0)),
            Ob("normalised-total-has-the-same-sign", (totn < 0) if negative else (totn > 0))]


def reversal(env, n):
    import forsys as fs
    if n == 3:
        cs = [env.unit(f"p{i}") for i in range(3)]
        for i in range(2):
            (c0, s0), (c1, s1) = cs[i], cs[i + 1]
            env.assume(c0 * s1 - s0 * c1 > 0)
            env.assume(c0 * c1 + s0 * s1 > 0)
        pts = cs
    else:
        pts = _uniform_arc(env, n, True)
    be = _bigedge(fs, pts)
    be2 = _bigedge(fs, pts[::-1], 100)
    k1 = be.calculate_total_curvature(normalized=False)
    k2 = be2.calculate_total_curvature(normalized=False)
    # per-segment length lemmas are identities of memoised roots; the per-point curvatures of the reversed interface are
    # the negatives of the originals in reverse order (cut)
    c1, c2 = be.calculate_curvature(), be2.calculate_curvature()
    lem = [env.eq(c2[n - 1 - i], -c1[i]) for i in range(n)]
    return [Ob("reversing-the-stored-order-negates-the-total-curvature", env.eq(k2, -k1), lemmas=lem)]


def straight(env, n):
    import forsys as fs
    px, py, dx, dy = env.real("px"), env.real("py"), env.real("dx"), env.real("dy")
    env.assume((dx != 0) | (dy != 0))
    ts = [0] + env.reals("t", n - 1)
    for i in range(n - 1):
        env.assume(ts[i + 1] > ts[i])
    pts = [(px + t * dx, py + t * dy) for t in ts]
    be = _bigedge(fs, pts)
    ks = be.calculate_curvature()
    tot = be.calculate_total_curvature(normalized=False)
    return [Ob(f"curvature-{i}-zero-on-a-straight-interface", env.eq(ks[i], 0)) for i in range(n)] + \
           [Ob("total-turning-zero-on-a-straight-interface", env.eq(tot, 0), lemmas=[env.eq(k, 0) for k in ks])]


def similarity(env, what):
    """3-point interface with free coordinates: scaling / translation leave the un-normalised total unchanged, reflection negates."""
    import forsys as fs
    n = 3
    xs, ys = env.reals("x", n), env.reals("y", n)
    for i in range(n - 1):
        env.assume((xs[i] != xs[i + 1]) | (ys[i] != ys[i + 1]))
    env.assume((xs[0] != xs[2]) | (ys[0] != ys[2]))
    be = _bigedge(fs, list(zip(xs, ys)))
    k0 = be.calculate_curvature()
    t0 = be.calculate_total_curvature(normalized=False)
    if what == "translation":
        a, b = env.real("ta"), env.real("tb")
        be2 = _bigedge(fs, [(x + a, y + b) for x, y in zip(xs, ys)], 100)
        k1 = be2.calculate_curvature()
        return [Ob("translation-keeps-total-curvature", env.eq(be2.calculate_total_curvature(normalized=False), t0),
                   lemmas=[env.eq(k1[i], k0[i]) for i in range(n)])]
    if what == "reflection":
        be2 = _bigedge(fs, [(-x, y) for x, y in zip(xs, ys)], 100)
        k1 = be2.calculate_curvature()
        return [Ob("reflection-negates-total-curvature", env.eq(be2.calculate_total_curvature(normalized=False), -t0),
                   lemmas=[env.eq(k1[i], -k0[i]) for i in range(n)])]
    if what == "scaling":
        k = env.real("k")
        env.assume(k > 0)
        env.hint_positive("k")
        be2 = _bigedge(fs, [(k * x, k * y) for x, y in zip(xs, ys)], 100)
        k1 = be2.calculate_curvature()
        lem = []
        for i in range(n - 1):
            l1 = np.sqrt((k * xs[i + 1] - k * xs[i]) ** 2 + (k * ys[i + 1] - k * ys[i]) ** 2)
            l0 = np.sqrt((xs[i + 1] - xs[i]) ** 2 + (ys[i + 1] - ys[i]) ** 2)
            lem.append(env.eq(l1, k * l0))
        lem += [env.eq(k1[i] * k, k0[i]) for i in range(n)]      # curvature scales with 1/k
        return [Ob("scaling-keeps-total-curvature", env.eq(be2.calculate_total_curvature(normalized=False), t0), lemmas=lem)]
    raise ValueError(what)


# ------------------------------------------------------------------------------------------------ O1c rows
def row(env, flip0, flip1, order, left):
    """Two cells c0, c1 of T3 share interface s1 (spec direction O -> P1, c1 on its left, c0 on its right when every spec
    cell is counter-clockwise).  `left`: the interface turns left (w.r.t. the spec direction) = centre of curvature on c1's
    side.  flips: cells stored clockwise; order: insertion order of the cells (decides own_cells order and the stored
    direction of the interface)."""
    import forsys as fs
    import forsys.pmatrix as pmx
    spec = tissue.star(3, n_spoke=3, n_border=2)
    coords = {pn: (env.real(f"x_{pn}"), env.real(f"y_{pn}")) for pn in spec.points}
    for cn, path in spec.cells:
        cyc = []
        for ln, d in path:
            names = spec.lines[ln] if d > 0 else spec.lines[ln][::-1]
            cyc += names[:-1]
        sh = 0
        for a, b in zip(cyc, cyc[1:] + cyc[:1]):
            sh = sh + (coords[a][0] * coords[b][1] - coords[b][0] * coords[a][1])
        env.assume(sh > 0)
        # hint: the default geometry is such an embedding
        for pn in cyc:
            env.hint_value(f"x_{pn}", spec.points[pn][0])
            env.hint_value(f"y_{pn}", spec.points[pn][1])
    flips = set()
    if flip0:
        flips.add("c0")
    if flip1:
        flips.add("c1")
    b = tissue.build(spec, fs, coords=coords, flips=flips, cell_order=order)
    fr = fs.frames.Frame(0, b.vertices, b.edges, b.cells, time=0)
    be = next(x for x in fr.internal_big_edges if tissue.line_of_big_edge(b, x.get_vertices_ids())[0] == "s1")
    stored_dir = tissue.line_of_big_edge(b, be.get_vertices_ids())[1]
    kappa = env.real("kappa")
    T = env.real("T")
    env.assume(T > 0)
    # sign of the total curvature of the *stored* direction (O1a/O1b): left turn <=> negative
    turns_left_stored = left if stored_dir > 0 else (not left)
    env.assume(kappa < 0 if turns_left_stored else kappa > 0)
    be.calculate_total_curvature = lambda normalized=True: kappa
    be.tension = T
    pm = pmx.PressureMatrix.__new__(pmx.PressureMatrix)
    pmx.forsys_general_matrix.GeneralMatrix.__init__(pm, fr, {})
    pm.mapping_order = {key: i for i, key in enumerate(fr.cells)}
    lhs, rhs = pm.get_row(be)
    centre, other = ("c1", "c0") if left else ("c0", "c1")
    pc, po = pm.mapping_order[b.cid_of[centre]], pm.mapping_order[b.cid_of[other]]
    mag = abs(kappa) * T
    good = ((env.eq(lhs[pc], 1) & env.eq(lhs[po], -1) & env.eq(rhs, mag)) |
            (env.eq(lhs[pc], -1) & env.eq(lhs[po], 1) & env.eq(rhs, -mag)))
    zeros = env.conj([env.eq(lhs[i], 0) for i in range(len(lhs)) if i not in (pc, po)])
    return [Ob("row-states-p(centre-side)-minus-p(other)-equals-T-times-turning", good),
            Ob("no-other-cell-in-the-row", zeros),
            Ob("own-cells-are-the-two-cells-of-the-interface", sorted(be.own_cells) == sorted([b.cid_of["c0"], b.cid_of["c1"]]))]


# ------------------------------------------------------------------------------------------------ O3 solve
def solve(env, topo, cell_order=None):
    import forsys as fs
    spec = catalogue(topo, n_spoke=4, bulge=0.12) if topo.startswith("T3+") else catalogue(topo, n_spoke=4, n_border=2, bulge=0.12)
    internal = spec.internal_lines()
    runs = {}
    Ts = {}
    alpha, beta = env.real("alpha"), env.real("beta")
    for tag in ("a", "b", "c"):
        if tag == "c":
            # the third pressure step is taken on the *same* solver object as the first one, after the tensions changed:
            # the equations must follow the current tensions
            b, fr, F = runs["a"][0], runs["a"][1], runs["a"][2]
            first_pressures = {cid: c_.pressure for cid, c_ in fr.cells.items()}
        else:
            b = tissue.build(spec, fs, cell_order=cell_order)
            fr = fs.frames.Frame(0, b.vertices, b.edges, b.cells, time=0)
            F = fs.ForSys({0: fr})
        for be in fr.internal_big_edges:
            ln = tissue.line_of_big_edge(b, be.get_vertices_ids())[0]
            if tag == "c":
                be.tension = alpha * Ts["a"][ln] + beta * Ts["b"][ln]
            else:
                Ts.setdefault(tag, {})[ln] = env.real(f"T{tag}_{ln}")
                be.tension = Ts[tag][ln]
        F.build_pressure_matrix(when=0)
        F.solve_pressure(when=0, method="lagrange_pressure")
        runs[tag] = (b, fr, F, F.pressure_matrices[0], stubs.CAP.get("inv", [])[-1] if stubs.CAP.get("inv") else None,
                     {cid: c_.pressure for cid, c_ in fr.cells.items()}, list(F.pressure_matrices[0].solution),
                     np.asarray(F.pressure_matrices[0].lhs_matrix, dtype=object).copy(), list(F.pressure_matrices[0].rhs_matrix))
    b, fr, F, pm, inv = runs["a"][:5]
    pm_sol, pm_L, pm_r = runs["a"][6], runs["a"][7], runs["a"][8]
    obs = []
    L, r = pm_L, pm_r
    ne, nc = L.shape
    sol = pm_sol
    kept = [i for i in range(len(fr.cells)) if i not in pm.removed_columns]
    p = [sol[i] for i in kept]
    if inv is not None and len(inv["x"]) == nc + 1:
        mu = inv["x"][nc]
        normal = env.true()
        for i in range(nc):
            lhs = sum((sum((L[e, i] * L[e, j] for e in range(1, ne)), L[0, i] * L[0, j]) * p[j] for j in range(1, nc)),
                      sum((L[e, i] * L[e, 0] for e in range(1, ne)), L[0, i] * L[0, 0]) * p[0]) + mu
            rhs = sum((L[e, i] * r[e] for e in range(1, ne)), L[0, i] * r[0])
            normal = normal & env.eq(lhs, rhs, tol=1e-6)
        obs.append(Ob("pressures-solve-the-normal-equations-bordered-by-the-multiplier", normal))
        obs.append(Ob("pressures-sum-to-zero", env.eq(sum(p[1:], p[0]), 0, abs_tol=1e-9)))
    else:
        obs.append(Ob("exact-inversion-of-the-bordered-normal-system-was-used", inv is not None))
    # rows: +-1 pair per internal interface, rhs = tension * total curvature (geometry concrete here)
    rows_ok = env.true() & (ne == len(internal))
    for e, be in enumerate(fr.internal_big_edges):
        ln = tissue.line_of_big_edge(b, be.get_vertices_ids())[0]
        a, c = spec.interfaces[ln]
        ia, ic = kept.index(pm.mapping_order[b.cid_of[a]]), kept.index(pm.mapping_order[b.cid_of[c]])
        rows_ok = rows_ok & (sorted([float(L[e, ia]), float(L[e, ic])]) == [-1.0, 1.0]) & \
            all(float(L[e, j]) == 0 for j in range(nc) if j not in (ia, ic))
        rows_ok = rows_ok & env.eq(r[e], Ts["a"][ln] * float(be.calculate_total_curvature(normalized=False)), tol=1e-9)
    obs.append(Ob("one-equation-per-internal-interface-with-rhs-tension-times-turning", rows_ok))
    # cells without internal interface: exactly zero; every cell carries its own column
    touching = {cn for ln in internal for cn in spec.interfaces[ln]}
    zero_ok = env.true()
    own = env.true()
    for cn, _ in spec.cells:
        cp = runs["a"][5][b.cid_of[cn]]
        own = own & env.eq(cp, sol[pm.mapping_order[b.cid_of[cn]]])
        if cn not in touching:
            zero_ok = zero_ok & env.eq(cp, 0) & (pm.mapping_order[b.cid_of[cn]] in pm.removed_columns)
    obs.append(Ob("cells-touching-no-internal-interface-get-zero", zero_ok))
    obs.append(Ob("each-cell-carries-the-pressure-of-its-own-column", own))
    # linearity in the tensions
    lin = env.true()
    for cn, _ in spec.cells:
        pa = runs["a"][5][runs["a"][0].cid_of[cn]]
        pb = runs["b"][5][runs["b"][0].cid_of[cn]]
        pcc = runs["c"][5][runs["c"][0].cid_of[cn]]
        lin = lin & env.eq(pcc, alpha * pa + beta * pb, tol=1e-6)
    obs.append(Ob("pressures-are-linear-in-the-tensions", lin))
    return obs


def jobs(tier):
    js = []
    quick = tier == "quick"
    for n in ((3, 4, 5) if quick else (3, 4, 5, 6, 7, 9)):
        for ccw in (True, False):
            js.append(Job(f"pointwise-sign-uniform-n{n}-{'ccw' if ccw else 'cw'}", "c04:pointwise_sign_uniform", dict(n=n, ccw=ccw),
                          budget_s=900, weight=n))
    for ccw in (True, False):
        js.append(Job(f"pointwise-sign-3pt-{'ccw' if ccw else 'cw'}", "c04:pointwise_sign_3pt", dict(ccw=ccw), budget_s=600))
    for n in ((3, 5) if quick else (3, 4, 5, 7, 9)):
        for neg in (True, False):
            js.append(Job(f"total-from-pointwise-n{n}-{'neg' if neg else 'pos'}", "c04:total_from_pointwise", dict(n=n, negative=neg), budget_s=600))
    for n in ((3,) if quick else (3, 4, 5)):
        js.append(Job(f"reversal-n{n}", "c04:reversal", dict(n=n), budget_s=900, weight=5))
    for n in ((3, 4) if quick else (3, 4, 5, 6)):
        js.append(Job(f"straight-n{n}", "c04:straight", dict(n=n), budget_s=900, weight=3))
    for what in ("translation", "reflection", "scaling"):
        js.append(Job(f"similarity-{what}", "c04:similarity", dict(what=what), budget_s=900, weight=5, opts=dict(sample_tries=30)))
    for flip0 in (False, True):
        for flip1 in (False, True):
            for order in (["c0", "c1", "c2"], ["c1", "c0", "c2"], ["c2", "c1", "c0"]):
                for left in (True, False):
                    if quick and order[0] == "c2" and (flip0 or flip1):
                        continue
                    js.append(Job(f"row-flip{int(flip0)}{int(flip1)}-order{''.join(x[1] for x in order)}-{'left' if left else 'right'}",
                                  "c04:row", dict(flip0=flip0, flip1=flip1, order=order, left=left), budget_s=600, weight=2))
    for topo in (("T3", "T3+pendant") if quick else ("T3", "K3", "K3-n0", "T3+pendant", "K4")):
        js.append(Job(f"solve-{topo}", "c04:solve", dict(topo=topo), budget_s=900, weight=4, opts=dict(cheap_forks=True)))
    # several cells without internal interface, stored among the linked cells (re-insertion of the zero pressures)
    for order in (["pend", "c0", "pend1", "c1", "c2"], ["c0", "pend1", "c1", "pend", "c2"]) if quick else \
            (["pend", "c0", "pend1", "c1", "c2"], ["c0", "pend1", "c1", "pend", "c2"], ["c0", "c1", "c2", "pend", "pend1"], ["pend1", "pend", "c2", "c1", "c0"]):
        js.append(Job(f"solve-T3+2pendants-order={'-'.join(order)}", "c04:solve", dict(topo="T3+2pendants", cell_order=order), budget_s=900,
                      weight=4, opts=dict(cheap_forks=True)))
    return js
