"""Job runner: explores one harness instance, decides its obligations, replays counterexamples."""
import hashlib
import importlib
import json
import multiprocessing as mp
import os
import sys
import time
import traceback

import z3

from . import core, shim
from .core import Inconclusive, PathAbort, PathCap, as_z3_bool
from .harness import SymEnv, ConcEnv, Ob, PreconditionFailed

REPO = os.environ.get("FORSYS_REPO", "/repo")


class Job:
    def __init__(self, name, func, params=None, opts=None, max_paths=400, budget_s=600, tol=1e-6, weight=1):
        self.name = name
        self.func = func            # "module:function" inside /verif/harness
        self.params = params or {}
        self.opts = opts or {}
        self.max_paths = max_paths
        self.budget_s = budget_s
        self.tol = tol
        self.weight = weight

    def key(self):
        return dict(name=self.name, func=self.func, params=self.params)


def _resolve(func):
    mod, fn = func.split(":")
    m = importlib.import_module("harness." + mod)
    return getattr(m, fn)


_ENTERED = set()


def _profile(frame, event, arg):
    if event == "call":
        co = frame.f_code
        fn = co.co_filename
        if fn.startswith(REPO + "/forsys/"):
            _ENTERED.add(fn[len(REPO) + 1:-3].replace("/", ".") + "." + co.co_qualname)


def run_concrete(func, params, values, tol):
    """Run the harness body on floats with the real libraries.  Returns dict name -> bool, or raises."""
    from . import stubs
    saved = core.CTX
    core.CTX = None
    try:
        env = ConcEnv(values, tol=tol)
        stubs.reset(env)
        obs = func(env, **params)
        out = {}
        for ob in obs:
            try:
                ok = bool(ob.cond) if not isinstance(ob.cond, z3.ExprRef) else None
            except Exception as e:  # noqa
                ok = None
            out.setdefault(ob.name, True)
            if ok is False:
                out[ob.name] = False
            elif ok is None and out[ob.name] is True:
                out[ob.name] = None
        return out
    finally:
        core.CTX = saved
        from . import stubs as _s
        _s.reset(None)


def run_job(job, findings_open):
    """Executed in a child process.  Returns a JSON-able dict."""
    t_start = time.time()
    shim.install()
    from . import stubs
    stubs.install()
    func = _resolve(job.func)
    res = dict(job=job.key(), obligations={}, cex=[], witnesses=[], errors=[], notes=[], samples=[],
               reach=dict(paths_with_model=0, witness_checked=0, witness_mismatch=[]))
    obl = res["obligations"]

    def rec(name):
        return obl.setdefault(name, dict(unsat=0, sat=0, unknown=0, trivial=0, seconds=0.0, max_s=0.0, levels={}))

    state = dict(path=0)

    def fn():
        env = SymEnv()
        stubs.reset(env)
        try:
            return job_call(env)
        except (Inconclusive, PathAbort, PathCap):
            raise
        except Exception as e:
            return [Ob("no-exception", False, note=f"{type(e).__name__}: {e}")]

    def job_call(env):
        return func(env, **job.params)

    def concretise(c, extra, known=None, timeout_ms=None):
        status, vals = core.full_model(c, extra, known=known, timeout_ms=timeout_ms)
        if vals is None:
            return status, None
        return status, {k: vals.get(k, 0.0) for k in c.inputs}

    def on_path(c, obs):
        state["path"] += 1
        pidx = state["path"]
        res["notes"] = list(dict.fromkeys(res["notes"] + [str(n) for n in c.notes]))[:50]
        # reachability witness + encoding validation on the first paths
        res["reach"]["attempts"] = res["reach"].get("attempts", 0) + 1
        if res["reach"]["witness_checked"] < job.opts.get("witness_paths", 2) and \
                res["reach"]["attempts"] <= job.opts.get("witness_attempts", 4):
            _, vals = concretise(c, [], timeout_ms=job.opts.get("witness_timeout_ms", 10000))
            if vals is not None:
                res["reach"]["paths_with_model"] += 1
                try:
                    conc = run_concrete(func, job.params, vals, max(job.tol, 1e-5))
                    res["reach"]["witness_checked"] += 1
                    bad = [n for n, ok in conc.items() if ok is False]
                    sym_names = {o.name for o in obs}
                    if set(conc) != sym_names:
                        # the concrete run took another path: not comparable
                        pass
                    else:
                        claimed_bad = set()
                        for o in obs:
                            if o.finding and o.finding in findings_open:
                                claimed_bad.add(o.name)
                        bad = [n for n in bad if n not in claimed_bad]
                        if bad:
                            res["reach"]["witness_mismatch"].append(dict(path=pidx, failing=bad, inputs=vals))
                except PreconditionFailed:
                    pass
                except Exception as e:  # noqa
                    res["reach"]["witness_mismatch"].append(dict(path=pidx, error=f"{type(e).__name__}: {e}"))
        for ob in obs:
            r = rec(ob.name)
            cond = as_z3_bool(ob.cond)
            split = ob.finding is not None and ob.finding in findings_open and ob.region is not None
            claim = z3.Or(cond, as_z3_bool(ob.region)) if split else cond
            if ob.finding is not None and ob.finding in findings_open and ob.region is None:
                # the whole obligation is the recorded finding
                split, claim = True, z3.BoolVal(True)
                region = z3.BoolVal(True)
            elif split:
                region = as_z3_bool(ob.region)
            if z3.is_true(z3.simplify(claim)) and not split:
                r["trivial"] += 1
                continue
            extra = []
            for lem in ob.lemmas:
                lz = as_z3_bool(lem)
                lv, _, _, ls = core.decide(c, lz, extra=list(extra))
                r["seconds"] += ls
                r["lemmas"] = r.get("lemmas", 0) + 1
                if os.environ.get("SYMX_DEBUG"):
                    print(f"[lemma] {ob.name} #{len(extra)} {lv} {ls:.1f}s {str(lz)[:120]}", file=sys.stderr, flush=True)
                if lv == "unsat":
                    extra.append(lz)
                    r["lemmas_proved"] = r.get("lemmas_proved", 0) + 1
            try:
                res.setdefault("hashes", []).append(hashlib.md5((ob.name + "|" + z3.simplify(z3.Not(claim)).sexpr()).encode()).hexdigest()[:12])
            except Exception:  # noqa
                pass
            verdict, model, level, secs = core.decide(c, claim, extra=extra)
            r[verdict] += 1
            r["seconds"] += secs
            r["max_s"] = max(r["max_s"], secs)
            r["levels"][str(level)] = r["levels"].get(str(level), 0) + 1
            if len(res["samples"]) < 3 and verdict == "unsat" and level >= 0:
                neg = z3.simplify(z3.Not(claim))
                cons = c._slice(set(core.vars_of(neg)), 0)
                txt = str(neg)
                res["samples"].append(dict(job=job.name, path=pidx, obligation=ob.name, verdict=verdict,
                                           seconds=round(secs, 3), assumptions_in_slice=len(cons),
                                           negated_claim=txt if len(txt) < 600 else txt[:600] + " ...",
                                           path_condition_size=len(c.pc), definitions=len(c.defs)))
            if verdict == "unknown" and not split:
                # The solver could not decide.  Before reporting 'inconclusive', look for a counterexample by running the
                # real code on a few concrete inputs that satisfy the harness assumptions; a failure found this way is a
                # genuine, replayed violation (an 'unknown' is never turned into a pass).
                for attempt in range(job.opts.get("concrete_search", 12)):
                    vals = c.random_inputs(attempt)
                    try:
                        conc = run_concrete(func, job.params, vals, max(job.tol, 1e-5))
                    except PreconditionFailed:
                        continue
                    except Exception:  # noqa
                        continue
                    if conc.get(ob.name) is False:
                        r["unknown"] -= 1
                        r["sat"] += 1
                        res["cex"].append(dict(job=job.key(), obligation=ob.name, path=pidx, inputs=vals, reproduced=True, finding=None,
                                               detail="solver undecided; counterexample found by concrete search and replayed",
                                               concrete={k: v for k, v in conc.items() if v is not True}))
                        break
            if verdict == "sat":
                st = handle_cex(c, ob, z3.Not(claim), pidx, finding=None, known=model)
                if st != "sat":
                    # the slice was satisfiable but the whole path condition is not (or is undecided)
                    r["sat"] -= 1
                    r["unsat" if st == "unsat" else "unknown"] += 1
                    if st == "unsat":
                        r["vacuous"] = r.get("vacuous", 0) + 1
            if split:
                # witness of the recorded finding
                w = z3.And(z3.Not(cond), region)
                if not any(x["finding"] == ob.finding and x["reproduced"] for x in res["witnesses"]):
                    v2, m2, l2, s2 = core.decide(c, z3.Not(w))
                    if v2 == "sat":
                        handle_cex(c, ob, w, pidx, finding=ob.finding, known=m2)

    def handle_cex(c, ob, neg, pidx, finding, known=None):
        status, vals = concretise(c, [neg], known=known)
        if status != "sat":
            return status
        entry = dict(job=job.key(), obligation=ob.name, path=pidx, inputs=vals, reproduced=False, detail=ob.note, note=ob.note,
                     finding=finding)
        if vals is not None:
            try:
                conc = run_concrete(func, job.params, vals, job.tol)
                if ob.name in conc:
                    entry["reproduced"] = conc[ob.name] is False
                    entry["concrete"] = {k: v for k, v in conc.items() if v is not True}
                elif "no-exception" in conc and conc["no-exception"] is False:
                    entry["reproduced"] = True
                    entry["concrete"] = {"no-exception": False}
                else:
                    entry["detail"] = "concrete run took a different path"
            except PreconditionFailed as e:
                entry["detail"] = f"model on the boundary of an assumption: {e}"
            except Exception as e:  # noqa
                # the real code raises on these inputs
                entry["reproduced"] = ob.name == "no-exception" or True
                entry["detail"] = f"real code raised {type(e).__name__}: {e}"
        if not entry["reproduced"] and c.inputs:
            # The solver's model may sit in a corner that an over-approximating stub admits but the real library does not
            # produce (e.g. a singular-but-consistent system on the "regular inverse" branch).  Look for generic models of
            # the same query by concretise-and-solve sampling and replay those.
            if core.vars_of(neg):
                cons0 = c._slice(set(core.vars_of(neg)), 2) + [neg]
            else:
                cons0 = [e for e, _ in c.pc] + [d.exact for d in c.defs] + [neg]
            for attempt in range(job.opts.get("generic_model_attempts", 3)):
                v1 = c.sample_model(cons0, tries=10)
                if v1 is None:
                    break
                st1, vals1 = concretise(c, [neg], known=v1)
                if vals1 is None:
                    continue
                try:
                    conc = run_concrete(func, job.params, vals1, job.tol)
                except PreconditionFailed:
                    continue
                except Exception as e:  # noqa
                    entry.update(reproduced=True, inputs=vals1, via="sampled generic model", detail=f"real code raised {type(e).__name__}: {e}")
                    break
                if conc.get(ob.name) is False:
                    entry.update(reproduced=True, inputs=vals1, via="sampled generic model",
                                 concrete={k: v for k, v in conc.items() if v is not True})
                    break
        if not entry["reproduced"] and c.hints.get("unit"):
            # irrational model values can lose an exact coincidence in IEEE arithmetic: look for another model of the
            # same query whose unit vectors are float-exact, and replay that
            if core.vars_of(neg):
                cons = c._slice(set(core.vars_of(neg)), 2) + [neg]
            else:       # the violation is reaching this path at all: any model of the path condition will do
                cons = [e for e, _ in c.pc] + [d.exact for d in c.defs] + [neg]
            v2 = c.float_exact_model(cons)
            if v2 is not None:
                st2, vals2 = concretise(c, [neg], known=v2)
                if vals2 is not None:
                    try:
                        conc = run_concrete(func, job.params, vals2, job.tol)
                        if conc.get(ob.name) is False:
                            entry.update(reproduced=True, inputs=vals2, via="float-exact model",
                                         concrete={k: v for k, v in conc.items() if v is not True})
                    except PreconditionFailed:
                        pass
                    except Exception as e:  # noqa
                        entry.update(reproduced=True, inputs=vals2, via="float-exact model",
                                     detail=f"real code raised {type(e).__name__}: {e}")
        if finding and not entry["reproduced"] and isinstance(findings_open, dict):
            # the solver established that the region is reachable; irrational model values may lose the exact
            # coincidence in IEEE arithmetic, so the finding's recorded concrete witness is replayed as well
            rec = (findings_open.get(finding) or {}).get("replay")
            if rec and rec.get("func") == job.func and rec.get("params") == job.params:
                try:
                    conc = run_concrete(func, job.params, rec["inputs"], job.tol)
                    if conc.get(ob.name) is False:
                        entry["reproduced"] = True
                        entry["via"] = "recorded witness of the finding"
                        entry["inputs"] = rec["inputs"]
                except Exception as e:  # noqa
                    entry["detail"] = f"recorded witness raised {type(e).__name__}: {e}"
        (res["witnesses"] if finding else res["cex"]).append(entry)
        return "sat"

    sys.setprofile(_profile)
    try:
        stats = core.explore(fn, opts=job.opts, max_paths=job.max_paths,
                             deadline=t_start + job.budget_s, on_path=on_path)
        res["stats"] = stats.as_dict()
    except PathCap as e:
        res["errors"].append(f"PathCap: {e}")
    except Inconclusive as e:
        res["errors"].append(f"Inconclusive: {e}\n{traceback.format_exc(limit=8)}")
    except Exception as e:  # noqa
        res["errors"].append(f"harness error {type(e).__name__}: {e}\n{traceback.format_exc(limit=12)}")
    finally:
        sys.setprofile(None)
    res["entered"] = sorted(_ENTERED)
    res["shims"] = dict(shim.HITS)
    res["stubs"] = dict(stubs.HITS)
    res["wall_s"] = time.time() - t_start
    return res


def _child(job, findings_open, conn):
    try:
        r = run_job(job, findings_open)
    except BaseException as e:  # noqa
        r = dict(job=job.key(), obligations={}, cex=[], witnesses=[], errors=[f"{type(e).__name__}: {e}\n{traceback.format_exc(limit=12)}"],
                 notes=[], samples=[], reach=dict(paths_with_model=0, witness_checked=0, witness_mismatch=[]),
                 entered=[], shims={}, stubs={}, wall_s=0.0)
    try:
        conn.send(json.dumps(r, default=str))
    finally:
        conn.close()


def run_jobs(jobs, findings_open, nproc=None, log=None):
    """Run jobs in forked children, at most nproc at a time.  Returns list of result dicts (job order)."""
    nproc = nproc or int(os.environ.get("VERIF_NPROC", "16"))
    shim.install()            # import forsys once in the parent; children are forked
    from . import stubs
    stubs.install()
    ctxm = mp.get_context("fork")
    pending = list(enumerate(jobs))
    pending.sort(key=lambda x: -x[1].weight)
    running = {}
    results = [None] * len(jobs)
    while pending or running:
        while pending and len(running) < nproc:
            idx, job = pending.pop(0)
            pr, pw = ctxm.Pipe(duplex=False)
            p = ctxm.Process(target=_child, args=(job, findings_open, pw))
            p.start()
            pw.close()
            running[idx] = (p, pr, time.time(), job)
        time.sleep(0.05)
        for idx in list(running):
            p, pr, t0, job = running[idx]
            if pr.poll():
                try:
                    results[idx] = json.loads(pr.recv())
                except EOFError:
                    results[idx] = None
                p.join()
                del running[idx]
                if log:
                    log(idx, job, results[idx])
            elif not p.is_alive():
                p.join()
                results[idx] = dict(job=job.key(), obligations={}, cex=[], witnesses=[], errors=[f"worker died (exit {p.exitcode})"],
                                    notes=[], samples=[], reach=dict(paths_with_model=0, witness_checked=0, witness_mismatch=[]),
                                    entered=[], shims={}, stubs={}, wall_s=time.time() - t0)
                del running[idx]
                if log:
                    log(idx, job, results[idx])
            elif time.time() - t0 > job.budget_s + 60:
                p.kill()
                p.join()
                results[idx] = dict(job=job.key(), obligations={}, cex=[], witnesses=[], errors=["worker exceeded its wall budget"],
                                    notes=[], samples=[], reach=dict(paths_with_model=0, witness_checked=0, witness_mismatch=[]),
                                    entered=[], shims={}, stubs={}, wall_s=time.time() - t0)
                del running[idx]
                if log:
                    log(idx, job, results[idx])
    return results
