"""C19 -- tessellation lattices match the Voronoi diagram of the given centres (post-Qhull part only).

Real create_lattice_elements / line_eq / get_vertex_number / get_enum / get_cell_area_sign / remove_infinite_regions /
create_lattice with scipy.spatial.Voronoi stubbed: `regions` come from a real Qhull run on a concrete seed set, the Voronoi
`vertices` are symbols in a small box round Qhull's coordinates (so every value of the corner coordinates near that
diagram is covered), assumed to lie on the 10^-3 grid (rounding is then the identity).
"""
import numpy as np

from symx.runner import Job
from symx.harness import Ob
from symx import stubs

PROPERTY = "C19"

META = dict(
    explanation="The lattice builder only walks regions / vertices of the Voronoi object; with symbolic corner coordinates its "
                "interning of vertices and edges by coordinate equality, its orientation test and its line evaluation are decided "
                "for every corner position in the box.",
    bounds=dict(seeds="jittered 4x4 lattice (4 bounded interior regions); jittered 5x5 thorough", box="each corner coordinate within 0.02 of Qhull's value",
                max_distance="infinite and a finite cut-off"),
    outside=["that Qhull's output is the Voronoi diagram", "add_voronoi_centers", "300-point sets",
             "corner coordinates off the 10^-3 grid (rounding is modelled as the identity)"],
    assumptions=["scipy.spatial.Voronoi replaced by an object with Qhull's concrete regions and symbolic vertices",
                 "general position: the two ends of a ridge have different x (the vertical-ridge case is the recorded finding)"],
    trusted=["z3"],
)


def _seeds(n, jitter=0.18, seed=3):
    rng = np.random.default_rng(seed)
    pts = []
    for i in range(n):
        for j in range(n):
            pts.append((i + rng.uniform(-jitter, jitter), j + rng.uniform(-jitter, jitter)))
    return pts


class FakeVoronoi:
    def __init__(self, regions, vertices):
        self.regions = regions
        self.vertices = vertices


def lattice(env, n, cutoff, vertical=None, exact_grid=False):
    import forsys as fs
    import forsys.tessellation as tess
    import scipy.spatial as scspace
    from scipy.spatial import Voronoi as RealVoronoi
    seeds = [(float(i), float(j)) for i in range(n) for j in range(n)] if exact_grid else _seeds(n)
    real = RealVoronoi(seeds)
    bounded = [r for r in real.regions if len(r) and -1 not in r]
    used = sorted({v for r in bounded for v in r})
    box = 0.02
    V = np.empty((len(real.vertices), 2), dtype=object if env.mode == "sym" else float)
    for i, (x, y) in enumerate(real.vertices):
        if i in used and not exact_grid:
            sx, sy = env.real(f"vx{i}"), env.real(f"vy{i}")
            env.assume(sx >= round(float(x), 3) - box)
            env.assume(sx <= round(float(x), 3) + box)
            env.assume(sy >= round(float(y), 3) - box)
            env.assume(sy <= round(float(y), 3) + box)
            env.hint_value(f"vx{i}", round(float(x), 3))
            env.hint_value(f"vy{i}", round(float(y), 3))
            V[i, 0], V[i, 1] = sx, sy
        else:
            V[i, 0], V[i, 1] = round(float(x), 3), round(float(y), 3)
    ridges = set()
    for r in bounded:
        for a, b in zip(r, r[1:] + r[:1]):
            ridges.add((min(a, b), max(a, b)))
    for a, b in ridges:
        if vertical == [a, b] or vertical == (a, b):
            env.assume(V[a, 0] == V[b, 0])
        elif not exact_grid:
            env.assume(V[a, 0] != V[b, 0])
    saved = scspace.Voronoi
    scspace.Voronoi = lambda pts: FakeVoronoi([list(r) for r in real.regions], V)
    err = None
    try:
        try:
            nv, ne, nc = tess.create_lattice_elements(seeds, max_distance=cutoff)
            vertices, edges, cells = tess.create_lattice(nv, ne, nc)
        except (FloatingPointError, ZeroDivisionError, KeyError, IndexError, ValueError) as e:
            err = e
    finally:
        scspace.Voronoi = saved
    obs = [Ob("lattice-is-built-without-error", err is None, finding="vertical_ridge_division" if (vertical or exact_grid) else None,
              note=f"{type(err).__name__}: {err}" if err else None)]
    if err is not None:
        return obs
    # oracle: regions below the cut-off (diameter = largest corner distance)
    def diam_ok(r):
        if cutoff == np.inf:
            return True
        ds = []
        for a in r:
            for b in r:
                if a < b:
                    ds.append((V[a, 0] - V[b, 0]) ** 2 + (V[a, 1] - V[b, 1]) ** 2)
        return env.conj([d <= cutoff * cutoff for d in ds])
    keep = [r for r in bounded if diam_ok(r) is True or (cutoff != np.inf and bool(diam_ok(r)))]
    obs.append(Ob("one-cell-per-bounded-region-below-the-cut-off", len(cells) == len(keep)))
    # vertex identity: one mesh vertex per distinct Voronoi corner in use
    corner_of = {}
    ok_v = env.true()
    for vid, v in vertices.items():
        hit = [i for i in used if bool(env.eq(v.x, V[i, 0]) & env.eq(v.y, V[i, 1])) is True] if env.mode != "sym" else \
            [i for i in used if (v.x is V[i, 0] or str(v.x) == str(V[i, 0])) and (v.y is V[i, 1] or str(v.y) == str(V[i, 1]))]
        ok_v = ok_v & (len(hit) == 1)
        if len(hit) == 1:
            corner_of[vid] = hit[0]
    obs.append(Ob("each-mesh-vertex-is-one-voronoi-corner", ok_v & (len(set(corner_of.values())) == len(corner_of))))
    # cell cycles = region corners in order (up to rotation / direction), shared ridges share vertices and the mesh edge
    cyc_ok = env.true()
    for r in keep:
        want = list(r)
        found = False
        for c in cells.values():
            got = [corner_of.get(v.id) for v in c.vertices]
            if sorted(got) == sorted(want):
                k = len(want)
                rots = [want[i:] + want[:i] for i in range(k)] + [want[::-1][i:] + want[::-1][:i] for i in range(k)]
                found = got in rots
                break
        cyc_ok = cyc_ok & found
    obs.append(Ob("cell-cycle-is-the-region's-corner-cycle", cyc_ok))
    shared = env.true()
    edge_pairs = {}
    for eid, e in edges.items():
        key = frozenset((corner_of.get(e.v1.id), corner_of.get(e.v2.id)))
        shared = shared & (key not in edge_pairs)
        edge_pairs[key] = eid
    kept_ridges = set()
    for r in keep:
        for a, b in zip(r, r[1:] + r[:1]):
            kept_ridges.add(frozenset((a, b)))
    shared = shared & (set(edge_pairs) == kept_ridges)
    obs.append(Ob("neighbouring-regions-share-vertices-and-the-mesh-edge-of-their-ridge", shared))
    signs = [c.get_area_sign() for c in cells.values()]
    obs.append(Ob("all-cells-stored-in-the-same-rotational-sense", len(set(signs)) <= 1 and (not signs or signs[0] != 0)))
    cons = True
    for vid, v in vertices.items():
        cons = cons and sorted(v.ownCells) == sorted(cid for cid, c in cells.items() if any(w is v for w in c.vertices))
        cons = cons and sorted(v.ownEdges) == sorted(eid for eid, e in edges.items() if e.v1 is v or e.v2 is v)
    obs.append(Ob("mesh-back-references-consistent", cons))
    return obs


def jobs(tier):
    js = []
    quick = tier == "quick"
    for n in ((4,) if quick else (4, 5)):
        for cutoff in (np.inf, 75.0):
            js.append(Job(f"lattice-{n}x{n}-cutoff={cutoff}", "c19:lattice", dict(n=n, cutoff=cutoff), budget_s=1500, max_paths=2000,
                          opts=dict(round_identity=True, cheap_forks=True), weight=5))
    js.append(Job("lattice-exact-square-grid-4x4", "c19:lattice", dict(n=4, cutoff=np.inf, exact_grid=True), budget_s=600,
                  opts=dict(round_identity=True)))
    return js
