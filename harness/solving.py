"""Shared 'build, solve, inspect what reached the back-end and what was written back' harness pieces."""
import warnings

import numpy as np

from symx import stubs, tissue
from symx.shim import SymArray
from harness.common import catalogue, VersorStub


class VelocityStub:
    """stands in for the TimeSeries: one arbitrary velocity vector per junction."""

    def __init__(self, env, built):
        self.env, self.built, self.values = env, built, {}

    def __bool__(self):
        return True

    def v(self, pn):
        if pn not in self.values:
            self.values[pn] = (self.env.real(f"vel_{pn}_x"), self.env.real(f"vel_{pn}_y"))
        return self.values[pn]

    def calculate_velocity(self, vid, frame_id):
        vx, vy = self.v(self.built.point_of[vid])
        if self.env.mode == "sym":
            a = np.empty(2, dtype=object)
            a[0], a[1] = vx, vy
            return a.view(SymArray)
        return np.array([vx, vy], dtype=float)


class Case:
    pass


def build_case(env, topo, n_int=3, unit=True, prefix="u", **build_kw):
    import forsys as fs
    c = Case()
    c.fs = fs
    c.spec = catalogue(topo, n_spoke=n_int, n_border=2) if topo != "single" else catalogue(topo)
    c.built = tissue.build(c.spec, fs, **build_kw)
    c.frame = fs.frames.Frame(0, c.built.vertices, c.built.edges, c.built.cells, time=0)
    c.F = fs.ForSys({0: c.frame})
    c.vs = VersorStub(env, fs, c.built, prefix=prefix, unit=unit)
    c.internal = c.spec.internal_lines()
    return c


def solve(c, velocity=None, build_kw=None, pre_build_kw=None, **solve_kw):
    """run the real build_force_matrix + solve_stress; returns (exception|None, list of warning messages)."""
    F = c.F
    if velocity is not None:
        F.mesh = velocity
    err = None
    with warnings.catch_warnings(record=True) as w:
        warnings.simplefilter("always")
        try:
            if pre_build_kw is not None:
                # an earlier build with other options on the same object must not influence the next one
                F.build_force_matrix(when=0, **pre_build_kw)
            F.build_force_matrix(when=0, **(build_kw or {}))
            c.fm = F.force_matrices[0]
            c.cols = [tissue.line_of_big_edge(c.built, e)[0] for e in c.fm.big_edges_to_use]
            c.M = c.fm.matrix.copy()
            F.solve_stress(when=0, **solve_kw)
        except (ValueError, IndexError, TypeError, KeyError, np.linalg.LinAlgError, FloatingPointError, ZeroDivisionError) as e:
            err = e
    c.warnings = [str(x.message) for x in w if "Numerically solving" in str(x.message)]
    c.err = err
    return err, c.warnings


def last(name):
    xs = stubs.CAP.get(name, [])
    return xs[-1] if xs else None


def kkt_zero_residual(env, cap, z):
    """Lemma chain: a KKT point x (x >= 0, g = A^T(Ax-b) >= 0, x.g = 0) of a problem that has a non-negative exact
    solution z has zero residual.  Each lemma is decided by the solver on its own, in this order, and then available
    to the next (cut, encoding rule 5).  Returns [] in concrete mode."""
    if env.mode != "sym" or "r" not in cap:
        return []
    A = np.asarray(cap["A"], dtype=object)
    b = list(cap["b"])
    x, r, g = cap["x"], cap["r"], cap["g"]
    m, n = A.shape
    h = [sum((A[i, j] * z[j] for j in range(1, n)), A[i, 0] * z[0]) - b[i] for i in range(m)]
    L = []
    L += [env.eq(h[i], 0) for i in range(m)]                     # z solves the system exactly
    L += [z[j] >= 0 for j in range(n)]
    L += [z[j] * g[j] >= 0 for j in range(n)]                    # sign lemma (z >= 0, g >= 0)
    L += [r[i] * h[i] <= 0 for i in range(m)]
    L += [r[i] * h[i] >= 0 for i in range(m)]
    # (x - z).g = |r|^2 - r.h is an identity in the definitions of r and g; with x.g = 0, z.g >= 0, r.h = 0:
    L += [sum((r[i] * r[i] for i in range(1, m)), r[0] * r[0]) <= 0]
    L += [env.eq(r[i], 0) for i in range(m)]
    return L
