"""Shared harness utilities: catalogue access, tangent stubs, small helpers."""
import numpy as np

from symx import core, tissue, stubs
from symx.shim import SymArray


def catalogue(name, **kw):
    if name == "T3": return tissue.star(3, **kw)
    if name == "T4": return tissue.star(4, **kw)
    if name == "K3": return tissue.wheel(3, **kw)
    if name == "K4": return tissue.wheel(4, **kw)
    if name == "R7": return tissue.wheel(6, **kw)
    if name == "K3-n0": return tissue.wheel(3, **kw).without_cells(["n0"])
    if name == "K3-hole": return tissue.wheel(3, **kw).without_cells(["c"])
    if name == "K4-n0": return tissue.wheel(4, **kw).without_cells(["n0"])
    if name == "T3-c0": return tissue.star(3, **kw).without_cells(["c0"])
    if name == "T4-c0": return tissue.star(4, **kw).without_cells(["c0"])
    if name == "single": return tissue.single_cell()
    if name == "T3+pendant": return tissue.star_pendant(**{k: v for k, v in kw.items() if k != "n_border"})
    if name == "T3+2pendants": return tissue.star_pendant(pendants=2, **{k: v for k, v in kw.items() if k != "n_border"})
    raise KeyError(name)


class VersorStub:
    """Replaces BigEdge.get_versor_from_vertex by one unit vector u(line, point) per (interface, junction).
    Contract = what C02-A proves for a single interface.  Retained (with the model's values) in concrete replay."""

    def __init__(self, env, fs, built_by_frame, prefix="u", unit=True):
        self.env = env
        self.fs = fs
        self.builts = built_by_frame      # dict frame key -> Built, or a single Built
        self.prefix = prefix
        self.unit = unit
        self.values = {}
        self.calls = 0
        self.orig = fs.edge.BigEdge.get_versor_from_vertex
        stub = self

        def get_versor_from_vertex(be, vid, method="edge", cell=None, fit_method="dlite"):
            return stub.lookup(be, vid)
        fs.edge.BigEdge.get_versor_from_vertex = get_versor_from_vertex

    def restore(self):
        self.fs.edge.BigEdge.get_versor_from_vertex = self.orig

    def _built_of(self, be):
        if not isinstance(self.builts, dict):
            return None, self.builts
        for k, b in self.builts.items():
            v = be.vertices[0]
            if b.vertices.get(v.id) is v:
                return k, b
        raise KeyError("interface belongs to no registered frame")

    def lookup(self, be, vid):
        self.calls += 1
        fk, b = self._built_of(be)
        ln, _ = tissue.line_of_big_edge(b, be.get_vertices_ids())
        pn = b.point_of[vid]
        return self.u(ln, pn, fk)

    def _default_direction(self, fk, ln, pn):
        """chord direction in the catalogue's default geometry: a hint for the sat-side sampler only."""
        try:
            b = self.builts[fk] if isinstance(self.builts, dict) else self.builts
            pts = b.spec.lines[ln]
            a, c = (pts[0], pts[1]) if pts[0] == pn else (pts[-1], pts[-2])
            (xa, ya), (xc, yc) = b.spec.points[a], b.spec.points[c]
            dx, dy = float(xc) - float(xa), float(yc) - float(ya)
            n = (dx * dx + dy * dy) ** 0.5
            return (dx / n, dy / n) if n else None
        except Exception:  # noqa
            return None

    def u(self, ln, pn, fk=None):
        key = (fk, ln, pn)
        if key not in self.values:
            tag = f"{self.prefix}{'' if fk is None else fk}_{ln}_{pn}"
            ux, uy = self.env.real(tag + "_x"), self.env.real(tag + "_y")
            if self.unit:
                if self.env.mode == "sym":
                    self.env.assume(ux * ux + uy * uy == 1)
                    self.env.hint_unit(tag + "_x", tag + "_y")
                    d = self._default_direction(fk, ln, pn)
                    if d is not None:
                        self.env.hint_value(tag + "_x", d[0])
                        self.env.hint_value(tag + "_y", d[1])
            arr = np.empty(2, dtype=object)
            arr[0], arr[1] = ux, uy
            self.values[key] = arr.view(SymArray) if self.env.mode == "sym" else np.array([ux, uy], dtype=float)
        return self.values[key]


def zval(x):
    return core.lift(x)
