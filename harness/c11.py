"""C11 -- mesh resampling keeps junctions, topology and interface shape.

O1 (E2, CrossHair): the real generate_mesh with the interface list stubbed to one interface of symbolic length L.
O2 (E3, bit-precise): the index expression e[int(len(e)/ne*i)] is sliced out of the *current* source by AST, translated
    to QF_BVFP (Float64 division/multiplication, truncation) and compared with floor(L*i/ne) and with the property-level
    claims (first index 0, strictly increasing, last sampled index < L-1) for L up to 4096.
O3 (E1, symx): the real generate_mesh / join_two_vertices / Cell.replace_vertex on catalogue tissues with symbolic
    coordinates: junctions keep identical coordinate terms, interfaces are ordered subsequences with both ends, cell
    cycles are cyclic subsequences, idempotence, two-point border interfaces are contracted to their midpoint.
"""
import ast
import os
import re
import subprocess
import sys
import tempfile
import time

import numpy as np

from symx.runner import Job
from symx.harness import Ob
from symx import tissue
from harness.common import catalogue

PROPERTY = "C11"
REPO = os.environ.get("FORSYS_REPO", "/repo")
VENV_PY = os.path.join(os.path.dirname(os.path.dirname(os.path.abspath(__file__))), ".venv", "bin", "python")

META = dict(
    explanation="Three engines: CrossHair on the real sampling kernel (symbolic interface length), a bit-precise SMT lemma for the "
                "float index arithmetic extracted from the current AST, and symx on whole catalogue meshes with symbolic coordinates.",
    bounds=dict(kernel="ne in 1..12, L in 2..41 (quick 2..24)", float_lemma="2 <= L <= 4096 (quick 512), 1 <= ne <= 12, 0 <= i < ne, L > ne",
                meshes="T3, K3, K3-n0, T3-c0, K3-hole, single with 0..8 interior points per interface, ne in {1,2,3,6}, replace_short_edges on/off"),
    outside=["interfaces longer than 4096 points", "parsed skeletons and Surface Evolver dumps (only synthetic catalogue meshes)",
             "ne > 12"],
    assumptions=["E2: create_edges_new stubbed to return one interface list(range(L)); vertices mapping owns a vertex for every id",
                 "E3: Python int/float semantics = IEEE-754 binary64 RNE division/multiplication and truncation (modelled bit-precisely)",
                 "E1: Cell.__post_init__ circle fit stubbed (unused)"],
    trusted=["CrossHair 0.0.110", "cvc5 / z3 floating-point theories", "z3 reals"],
)

# ------------------------------------------------------------------------------------------------ E2
CH_TEMPLATE = '''
from typing import List
import forsys.virtual_edges as ve
import forsys.vertex as fvertex

NE = %(ne)d
LMAX = %(lmax)d

class AnyVertices(dict):
    """environment: owns a vertex (shared by three cells) for every id asked for"""
    def __missing__(self, k):
        v = fvertex.Vertex(k, 0.0, 0.0); v.ownCells = [0, 1, 2]
        self[k] = v
        return v
    def items(self):
        return []

def _kernel(e, ne):
    orig = ve.create_edges_new
    ve.create_edges_new = lambda vertices, cells: [list(e)]
    try:
        _, _, _, out = ve.generate_mesh(AnyVertices(), {}, {}, ne=ne)
    finally:
        ve.create_edges_new = orig
    return out[0]

def resample(L: int) -> List[int]:
    """
    pre: 2 <= L <= LMAX
    post: __return__[0] == 0 and __return__[-1] == L - 1
    post: len(__return__) <= NE + 1
    post: all(__return__[k] < __return__[k + 1] for k in range(len(__return__) - 1))
    post: (L > NE) or __return__ == list(range(L))
    post: _kernel(__return__, NE) == __return__
    """
    return _kernel(list(range(L)), NE)

def twin(L: int) -> List[int]:
    """
    pre: 2 <= L <= LMAX
    post: False
    """
    return _kernel(list(range(L)), NE)
'''
CH_POSTS = ["keeps-both-ends", "at-most-ne+1-points", "strictly-increasing-subsequence", "short-interface-unchanged", "idempotent"]


def _kernel_concrete(L, ne):
    import forsys.virtual_edges as ve
    import forsys.vertex as fvertex

    class AnyVertices(dict):
        def __missing__(self, k):
            v = fvertex.Vertex(k, 0.0, 0.0)
            v.ownCells = [0, 1, 2]
            self[k] = v
            return v

        def items(self):
            return []
    def kern(e):
        orig = ve.create_edges_new
        ve.create_edges_new = lambda vertices, cells: [list(e)]
        try:
            return ve.generate_mesh(AnyVertices(), {}, {}, ne=ne)[3][0]
        finally:
            ve.create_edges_new = orig
    r = kern(list(range(L)))
    checks = [r[0] == 0 and r[-1] == L - 1, len(r) <= ne + 1, all(r[k] < r[k + 1] for k in range(len(r) - 1)),
              (L > ne) or r == list(range(L)), kern(r) == r]
    return r, checks


def run_crosshair(tier):
    lmax = 24 if tier == "quick" else 41
    tmp = tempfile.mkdtemp(prefix="c11ch_")
    procs = []
    env = dict(os.environ, PYTHONPATH=REPO, PYTHONDONTWRITEBYTECODE="1")
    t0 = time.time()
    for ne in range(1, 13):
        f = os.path.join(tmp, f"ch_ne{ne}.py")
        open(f, "w").write(CH_TEMPLATE % dict(ne=ne, lmax=lmax))
        p = subprocess.Popen([VENV_PY, "-m", "crosshair", "check", "--report_all", "--per_condition_timeout", "120", f],
                             stdout=subprocess.PIPE, stderr=subprocess.STDOUT, text=True, env=env, cwd=tmp)
        procs.append((ne, f, p))
    res = dict(job=dict(name="crosshair-kernel", func="crosshair", params=dict(lmax=lmax)), obligations={}, cex=[], witnesses=[],
               errors=[], notes=[], samples=[], reach=dict(paths_with_model=0, witness_checked=0, witness_mismatch=[]),
               entered=["forsys.virtual_edges.generate_mesh"], shims={}, stubs={"create_edges_new (one interface of symbolic length)": 12},
               extra_kind="crosshair")
    for ne, f, p in procs:
        try:
            out, _ = p.communicate(timeout=900)
        except subprocess.TimeoutExpired:
            p.kill()
            res["errors"].append(f"crosshair ne={ne}: timeout")
            continue
        lines = [l for l in out.splitlines() if l.strip()]
        src = open(f).read().splitlines()
        post_lines = [i + 1 for i, l in enumerate(src) if l.strip().startswith("post:")]
        for idx, name in enumerate(CH_POSTS):
            ln = post_lines[idx]
            o = res["obligations"].setdefault(f"kernel-ne{ne}-{name}", dict(unsat=0, sat=0, unknown=0, trivial=0, seconds=0.0, max_s=0.0, levels={}))
            msg = [l for l in lines if l.startswith(f"{f}:{ln}:")]
            if msg and "Confirmed over all paths" in msg[0]:
                o["unsat"] += 1
            elif msg and "error:" in msg[0]:
                m = re.search(r"resample\((\d+)\)", msg[0])
                L = int(m.group(1)) if m else None
                rep = False
                detail = msg[0]
                if L is not None:
                    try:
                        r, checks = _kernel_concrete(L, ne)
                        rep = not checks[idx]
                        detail = f"resample(L={L}, ne={ne}) = {r}"
                    except Exception as e:  # noqa
                        rep = True
                        detail = f"resample(L={L}, ne={ne}) raised {type(e).__name__}: {e}"
                o["sat"] += 1
                res["cex"].append(dict(job=dict(name=f"crosshair-ne{ne}", func="crosshair", params=dict(ne=ne, L=L)),
                                       obligation=f"kernel-ne{ne}-{name}", path=0, inputs=dict(L=L, ne=ne), reproduced=rep, detail=detail,
                                       finding=None))
            else:
                o["unknown"] += 1
                res["errors"].append(f"crosshair ne={ne} {name}: {msg[0] if msg else 'no verdict'}")
        tw = [l for l in lines if "twin(" in l and "error:" in l]
        if tw:
            res["reach"]["paths_with_model"] += 1
        else:
            res["errors"].append(f"crosshair ne={ne}: reachability twin was not refuted")
        if ne == 6:
            res["samples"].append(dict(engine="crosshair", harness="resample(L) with NE=6, 2<=L<=%d" % lmax, output=lines[:7]))
    res["wall_s"] = time.time() - t0
    for f in os.listdir(tmp):
        os.remove(os.path.join(tmp, f))
    os.rmdir(tmp)
    return res


# ------------------------------------------------------------------------------------------------ E3
class NotExtracted(Exception):
    pass


def extract_index_expr():
    """slice the expression that indexes `e` inside the sampling loop of generate_mesh out of the current source."""
    src = open(os.path.join(REPO, "forsys", "virtual_edges.py")).read()
    tree = ast.parse(src)
    fn = next((n for n in ast.walk(tree) if isinstance(n, ast.FunctionDef) and n.name == "generate_mesh"), None)
    if fn is None:
        raise NotExtracted("generate_mesh not found")
    found = []
    loops = [n for n in ast.walk(fn) if isinstance(n, ast.For) and isinstance(n.target, ast.Name)]
    seen_nodes = set()
    for loop in loops:
        for node in ast.walk(loop):
            if isinstance(node, ast.Subscript) and isinstance(node.value, ast.Name) and id(node) not in seen_nodes and \
                    any((isinstance(x, ast.Call) and getattr(x.func, "id", None) == "int") or
                        (isinstance(x, ast.BinOp) and isinstance(x.op, (ast.Div, ast.FloorDiv))) for x in ast.walk(node.slice)):
                seen_nodes.add(id(node))
                # innermost enclosing loop
                inner = min((l for l in loops if any(n is node for n in ast.walk(l))), key=lambda l: l.end_lineno - l.lineno)
                found.append((inner, node))
    if len(found) != 1:
        raise NotExtracted(f"expected exactly one computed subscript in a for loop, found {len(found)}")
    loop, sub = found[0]
    seq, ivar = sub.value.id, loop.target.id
    # reaching single assignments in the function (name -> value expr), applied until fixpoint
    assigns = {}
    for node in ast.walk(fn):
        if isinstance(node, ast.Assign) and len(node.targets) == 1 and isinstance(node.targets[0], ast.Name):
            assigns.setdefault(node.targets[0].id, []).append(node.value)
    # the loop range: for i in edgeRange ; edgeRange = range(0, ne)
    it = loop.iter
    if isinstance(it, ast.Name):
        vals = assigns.get(it.id, [])
        if len(vals) != 1:
            raise NotExtracted("loop range is not a single assignment")
        it = vals[0]
    if not (isinstance(it, ast.Call) and getattr(it.func, "id", None) == "range"):
        raise NotExtracted("loop does not run over a range")
    rargs = [ast.unparse(a) for a in it.args]
    if rargs not in (["0", "ne"], ["ne"]):
        raise NotExtracted(f"loop range is range({', '.join(rargs)}), expected range(0, ne)")

    def inline(node, depth=0):
        if depth > 6:
            raise NotExtracted("assignment chain too deep")
        if isinstance(node, ast.Name) and node.id not in (seq, ivar, "ne") and node.id in assigns:
            vals = assigns[node.id]
            if len(vals) != 1:
                raise NotExtracted(f"{node.id} assigned {len(vals)} times")
            return inline(vals[0], depth + 1)
        for field, value in ast.iter_fields(node):
            if isinstance(value, ast.AST):
                setattr(node, field, inline(value, depth + 1))
            elif isinstance(value, list):
                setattr(node, field, [inline(v, depth + 1) if isinstance(v, ast.AST) else v for v in value])
        return node
    import copy
    expr = inline(copy.deepcopy(sub.slice))
    return expr, seq, ivar, ast.unparse(expr)


def translate(expr, seq, ivar, L, ne, i, z3):
    """AST -> (kind, term): kind 'int' (32-bit signed bit-vector) or 'fp' (Float64)."""
    F, RNE, RTZ = z3.Float64(), z3.RNE(), z3.RTZ()

    def to_fp(t):
        k, v = t
        return v if k == "fp" else z3.fpSignedToFP(RNE, v, F)

    def go(n):
        if isinstance(n, ast.Call) and isinstance(n.func, ast.Name) and n.func.id == "len" and len(n.args) == 1 \
                and isinstance(n.args[0], ast.Name) and n.args[0].id == seq:
            return ("int", L)
        if isinstance(n, ast.Call) and isinstance(n.func, ast.Name) and n.func.id == "int" and len(n.args) == 1:
            k, v = go(n.args[0])
            return ("int", v) if k == "int" else ("int", z3.fpToSBV(RTZ, v, z3.BitVecSort(32)))
        if isinstance(n, ast.Name):
            if n.id == "ne":
                return ("int", ne)
            if n.id == ivar:
                return ("int", i)
            raise NotExtracted(f"free name {n.id}")
        if isinstance(n, ast.Constant) and isinstance(n.value, bool) is False and isinstance(n.value, int):
            return ("int", z3.BitVecVal(n.value, 32))
        if isinstance(n, ast.Constant) and isinstance(n.value, float):
            return ("fp", z3.FPVal(n.value, F))
        if isinstance(n, ast.BinOp):
            a, b = go(n.left), go(n.right)
            if isinstance(n.op, ast.Div):
                return ("fp", z3.fpDiv(RNE, to_fp(a), to_fp(b)))
            if isinstance(n.op, ast.FloorDiv) and a[0] == b[0] == "int":
                return ("int", z3.UDiv(a[1], b[1]))      # operands are non-negative in the harness
            both_int = a[0] == b[0] == "int"
            if isinstance(n.op, ast.Mult):
                return ("int", a[1] * b[1]) if both_int else ("fp", z3.fpMul(RNE, to_fp(a), to_fp(b)))
            if isinstance(n.op, ast.Add):
                return ("int", a[1] + b[1]) if both_int else ("fp", z3.fpAdd(RNE, to_fp(a), to_fp(b)))
            if isinstance(n.op, ast.Sub):
                return ("int", a[1] - b[1]) if both_int else ("fp", z3.fpSub(RNE, to_fp(a), to_fp(b)))
        raise NotExtracted(f"unsupported construct {ast.dump(n)[:80]}")
    k, v = go(expr)
    if k != "int":
        raise NotExtracted("index expression is not an integer")
    return v


def _fp_queries(nev, maxL):
    import z3
    expr, seq, ivar, text = extract_index_expr()
    L, i = z3.BitVecs("L i", 32)
    ne = z3.BitVecVal(nev, 32)
    idx = translate(expr, seq, ivar, L, ne, i, z3)
    idx1 = z3.substitute(idx, (i, i + 1))
    idx0 = z3.substitute(idx, (i, z3.BitVecVal(0, 32)))
    idxl = z3.substitute(idx, (i, ne - 1))
    base = [z3.UGE(L, 2), z3.ULE(L, maxL), z3.ULT(i, ne), z3.UGT(L, ne)]
    exact = z3.UDiv(L * i, ne)
    qs = {
        "index-equals-floor(L*i/ne)": base + [idx != exact],
        "first-index-is-0": base + [idx0 != 0],
        "indices-strictly-increase": base + [z3.ULT(i + 1, ne), z3.Not(z3.ULT(idx, idx1))],
        "last-sampled-index-below-L-1": base + [z3.Not(z3.ULT(idxl, L - 1))],
    }
    return qs, text


def validate_translator():
    """the extracted term agrees with Python's own evaluation of the source expression on all (L<=64, ne<=12, i)."""
    import z3
    expr, seq, ivar, text = extract_index_expr()
    code = compile(ast.Expression(expr), "<index>", "eval")
    L, i, ne = z3.BitVecs("L i ne", 32)
    idx = translate(expr, seq, ivar, L, ne, i, z3)
    bad = []
    n = 0
    for Lv in range(2, 65):
        e = list(range(Lv))
        for nev in range(1, 13):
            for iv in range(nev):
                want = eval(code, {"len": len, "int": int}, {seq: e, "ne": nev, ivar: iv})
                got = z3.simplify(z3.substitute(idx, (L, z3.BitVecVal(Lv, 32)), (ne, z3.BitVecVal(nev, 32)), (i, z3.BitVecVal(iv, 32))))
                n += 1
                if got.as_signed_long() != want:
                    bad.append((Lv, nev, iv, want, got.as_signed_long()))
    return n, bad, text


def run_fp_lemma(tier):
    import z3
    t0 = time.time()
    maxL = 512 if tier == "quick" else 4096
    res = dict(job=dict(name="float-index-lemma", func="e3", params=dict(maxL=maxL)), obligations={}, cex=[], witnesses=[], errors=[],
               notes=[], samples=[], reach=dict(paths_with_model=1, witness_checked=0, witness_mismatch=[]), entered=[], shims={}, stubs={},
               extra_kind="smtlib-bvfp")
    try:
        n, bad, text = validate_translator()
    except NotExtracted as e:
        res["errors"].append(f"index expression not extracted from the current source: {e}")
        res["wall_s"] = time.time() - t0
        return res
    if bad:
        res["errors"].append(f"translator validation failed on {len(bad)} of {n} triples, e.g. {bad[0]}")
        res["wall_s"] = time.time() - t0
        return res
    res["notes"].append(f"extracted index expression: {text}; translator agrees with Python on {n} (L, ne, i) triples")
    tmp = tempfile.mkdtemp(prefix="c11fp_")
    procs = []
    for nev in range(1, 13):
        qs, text = _fp_queries(nev, maxL)
        for name, cons in qs.items():
            s = z3.Solver()
            s.add(*cons)
            f = os.path.join(tmp, f"q_{nev}_{name.split('-')[0]}_{len(procs)}.smt2")
            open(f, "w").write("(set-logic QF_BVFP)\n" + s.to_smt2())
            p = subprocess.Popen(["cvc5", "--tlimit=120000", f], stdout=subprocess.PIPE, stderr=subprocess.STDOUT, text=True)
            procs.append((nev, name, f, p, cons))
            while sum(1 for x in procs if x[3].poll() is None) >= 16:
                time.sleep(0.05)
    for nev, name, f, p, cons in procs:
        out, _ = p.communicate()
        o = res["obligations"].setdefault(f"fp-ne{nev}-{name}", dict(unsat=0, sat=0, unknown=0, trivial=0, seconds=0.0, max_s=0.0, levels={}))
        first = (out.strip().splitlines() or ["?"])[0].strip()
        verdict = first if first in ("sat", "unsat") and "(error" not in out else "unknown"
        if verdict != "unsat":
            # second opinion / model from z3 (python API)
            s = z3.Solver()
            s.set("timeout", 120000)
            s.add(*cons)
            r = str(s.check())
            if r == "sat":
                m = s.model()
                Lv = m.eval(z3.BitVec("L", 32), model_completion=True).as_long()
                iv = m.eval(z3.BitVec("i", 32), model_completion=True).as_long()
                r_, checks = _kernel_concrete(Lv, nev) if Lv > 1 else (None, [True])
                rep = not all(checks[:3])
                res["cex"].append(dict(job=dict(name=f"fp-ne{nev}", func="e3", params=dict(ne=nev)), obligation=f"fp-ne{nev}-{name}", path=0,
                                       inputs=dict(L=Lv, ne=nev, i=iv), reproduced=rep,
                                       detail=f"generate_mesh kernel on L={Lv}, ne={nev} returns {r_}", finding=None))
                verdict = "sat"
            elif r == "unsat" and verdict == "unknown":
                verdict = "unsat"
            elif verdict == "sat" and r == "unsat":
                res["errors"].append(f"solver disagreement on fp-ne{nev}-{name}: cvc5 sat, z3 unsat")
                verdict = "unknown"
        o[verdict] += 1
        if nev == 6 and name.startswith("index"):
            res["samples"].append(dict(engine="cvc5 QF_BVFP", query=f"ne=6, 2<=L<={maxL}, i<ne, L>ne, int(L/ne*i) != (L*i) div ne",
                                       verdict=verdict, extracted=text))
    for f in os.listdir(tmp):
        os.remove(os.path.join(tmp, f))
    os.rmdir(tmp)
    res["entered"] = ["forsys.virtual_edges.generate_mesh (index expression, by AST)"]
    res["wall_s"] = time.time() - t0
    return res


def extra_checks(tier):
    from concurrent.futures import ThreadPoolExecutor
    with ThreadPoolExecutor(2) as ex:
        a = ex.submit(run_crosshair, tier)
        b = ex.submit(run_fp_lemma, tier)
        return [a.result(), b.result()]


# ------------------------------------------------------------------------------------------------ E1
def _cyclic_subsequence(small, big):
    """is `small` (list of objects) a cyclic subsequence of `big` (by identity)?"""
    if not small:
        return True
    n = len(big)
    for start in range(n):
        rot = big[start:] + big[:start]
        it = iter(rot)
        if all(any(x is y for y in it) for x in small):
            return True
    return False


def mesh(env, topo, n_int, ne, replace, vid_offset=0):
    import forsys as fs
    import forsys.virtual_edges as ve
    spec = catalogue(topo, n_spoke=n_int + 2, n_border=2) if topo not in ("single", "T3+pendant") else \
        (catalogue(topo) if topo == "single" else catalogue(topo, n_spoke=n_int + 2))
    if topo.startswith("K"):
        spec = tissue.wheel(3, n_side=n_int + 2, n_spoke=n_int + 2, n_border=2)
        if topo == "K3-n0":
            spec = spec.without_cells(["n0"])
        if topo == "K3-hole":
            spec = spec.without_cells(["c"])
    # symbolic coordinates for every point
    coords = {pn: (env.real(f"x_{pn}"), env.real(f"y_{pn}")) for pn in spec.points}
    b = tissue.build(spec, fs, coords=coords, vid=(lambda i: i + vid_offset))
    V, E, C = b.vertices, b.edges, b.cells
    before_cycles = {cid: list(c.vertices) for cid, c in C.items()}
    before_ifaces = [[V[v] for v in e] for e in ve.create_edges_new(V, C)]
    before_cells_of = {id(v): list(v.ownCells) for v in V.values()}
    before_xy = {id(v): (v.x, v.y) for v in V.values()}
    before_adj = {frozenset((a, bb)) for v in V.values() for a in v.ownCells for bb in v.ownCells if a != bb}
    err = None
    try:
        V2, E2, C2, new_ifaces = ve.generate_mesh(V, E, C, ne=ne, replace_short_edges=replace)
    except Exception as e:  # noqa
        err = e
    ring = topo == "K3-hole" and n_int == 0 and replace and ne >= 2
    obs = [Ob("generate_mesh-does-not-raise", err is None, note=f"{type(err).__name__}: {err}" if err else None,
              finding="ring_of_two_point_border_interfaces_raises" if ring else None)]
    if err is not None:
        return obs
    # junctions shared by >= 3 cells: same object, identical coordinate terms
    jok = env.true()
    for v in b.vertices.values() if False else []:
        pass
    for vid0, cells0 in before_cells_of.items():
        if len(cells0) >= 3:
            v = next((w for w in V2.values() if id(w) == vid0), None)
            jok = jok & (v is not None)
            if v is not None:
                jok = jok & env.eq(v.x, before_xy[vid0][0]) & env.eq(v.y, before_xy[vid0][1])
    obs.append(Ob("junctions-keep-their-exact-position", jok))
    # cells with a junction survive; adjacency preserved
    keep = env.true()
    for cid, cyc in before_cycles.items():
        if any(len(before_cells_of[id(v)]) >= 3 for v in cyc):
            keep = keep & (cid in C2)
    after_adj = {frozenset((a, bb)) for v in V2.values() for a in v.ownCells for bb in v.ownCells if a != bb}
    obs.append(Ob("cells-and-adjacencies-kept", keep & (before_adj <= after_adj)))
    # interfaces: ordered subsequence with both ends, at most ne+1 points, short ones unchanged (or contracted)
    merged = {}       # id(old vertex) -> new vertex, for contracted two-point border interfaces
    iok = env.true()
    mid_ok = env.true()
    after_ifaces = [[V2[v] for v in e if v in V2] for e in ve.create_edges_new(V2, C2)]
    contracted = [o for o in before_ifaces if len(o) == 2 and all(len(before_cells_of[id(v)]) < 3 for v in o)]
    chained = set()
    for a in contracted:
        for c2 in contracted:
            if a is not c2 and any(x is y for x in a for y in c2):
                chained.add(id(a))
    for old in before_ifaces:
        two_border = len(old) == 2 and all(len(before_cells_of[id(v)]) < 3 for v in old)
        if two_border and replace and id(old) in chained:
            # neighbouring two-point border interfaces are contracted one after the other (midpoint of a midpoint):
            # only the disappearance of the old end points is asserted
            mid_ok = mid_ok & all(not any(w is o for w in V2.values()) for o in old)
            continue
        if two_border and replace:
            # contracted to the midpoint
            news = [w for w in V2.values() if id(w) not in before_xy]
            (x0, y0), (x1, y1) = before_xy[id(old[0])], before_xy[id(old[1])]
            hit = env.disj([env.eq(w.x, (x0 + x1) / 2) & env.eq(w.y, (y0 + y1) / 2) for w in news])
            mid_ok = mid_ok & hit & all(not any(w is o for w in V2.values()) for o in old)
            continue
        cands = [nw for nw in after_ifaces if nw and ((nw[0] is old[0] and nw[-1] is old[-1]) or (nw[0] is old[-1] and nw[-1] is old[0]))
                 and all(any(x is y for y in old) for x in nw) and (len(nw) > 2 or len(old) == 2 or len(old) > ne)]
        new = max(cands, key=len) if cands else None
        if new is None:
            # ends may have been contracted (neighbouring two-point border interface): skip those
            if replace and any(len(before_cells_of[id(v)]) < 3 and not any(v is w for w in V2.values()) for v in (old[0], old[-1])):
                continue
            iok = iok & False
            continue
        seq = new if new[0] is old[0] else new[::-1]
        it = iter(old)
        sub = all(any(x is y for y in it) for x in seq)
        iok = iok & sub & (len(new) <= ne + 1 or len(old) <= ne) & ((len(old) > ne) or len(new) == len(old))
    obs.append(Ob("interfaces-are-ordered-subsequences-with-both-ends-at-most-ne+1-points", iok))
    obs.append(Ob("two-point-border-interface-contracted-to-its-midpoint", mid_ok,
                  finding="ne1_two_point_border_not_contracted" if ne == 1 else "midpoint_abs", region=None))
    # cell cycles are cyclic subsequences of the original cycles (modulo contracted vertices)
    cok = env.true()
    for cid, c in C2.items():
        olds = [v for v in c.vertices if id(v) in before_xy]
        cok = cok & _cyclic_subsequence(olds, before_cycles[cid]) & (len(set(id(v) for v in c.vertices)) == len(c.vertices))
    obs.append(Ob("cell-cycles-are-cyclic-subsequences", cok))
    # idempotence
    snap_cycles = {cid: list(c.vertices) for cid, c in C2.items()}
    snap_vs = set(V2)
    try:
        V3, E3, C3, _ = ve.generate_mesh(V2, E2, C2, ne=ne, replace_short_edges=replace)
        idem = (set(V3) == snap_vs) and all(len(C3[cid].vertices) == len(cyc) and all(a is bb for a, bb in zip(C3[cid].vertices, cyc))
                                            for cid, cyc in snap_cycles.items()) and set(C3) == set(snap_cycles)
    except Exception as e:  # noqa
        idem = False
    obs.append(Ob("resampling-a-resampled-mesh-changes-nothing", idem))
    return obs


def jobs(tier):
    js = []
    quick = tier == "quick"
    topos = ["T3", "K3", "K3-n0", "T3-c0"] if quick else ["T3", "K3", "K3-n0", "T3-c0", "K3-hole", "single", "T4"]
    for t in topos:
        for n_int in ((0, 3) if quick else (0, 1, 3, 5, 8)):
            for ne in ((2, 6) if quick else (1, 2, 3, 6)):
                for rep in (True, False):
                    if quick and not rep and n_int:
                        continue
                    js.append(Job(f"mesh-{t}-int{n_int}-ne{ne}-replace={rep}", "c11:mesh", dict(topo=t, n_int=n_int, ne=ne, replace=rep),
                                  budget_s=300))
    # several two-point border interfaces contracted in one call, with vertex ids that do not start at 0 (so that fresh ids
    # taken from the wrong table would collide with existing vertices)
    for off in ((0, 9) if quick else (0, 3, 7, 9, 12, 15)):
        for ne in (2, 6):
            js.append(Job(f"mesh-T3+pendant-int0-ne{ne}-ids+{off}", "c11:mesh", dict(topo="T3+pendant", n_int=0, ne=ne, replace=True, vid_offset=off),
                          budget_s=300))
    return js
