"""C17 -- myosin quantification is a normalised, linear window statistic of the image.

Real get_intensities / get_intensity / get_layer_elements / get_interpolation / walk_two_vertices on a symbolic image
(every pixel one symbol); interfaces are concrete integer polylines placed by rescale / offset."""
import itertools
from scipy import interpolate
import math

import numpy as np

from symx.runner import Job
from symx.harness import Ob
from symx.shim import sort_network_median
from symx import core

PROPERTY = "C17"

META = dict(
    explanation="The image is an arbitrary W x H array of symbols; the reported intensity is compared, as a term, with the window / band "
                "statistic defined from the property statement over the same symbols.",
    bounds=dict(image="14 x 14 (20 x 20 thorough), every pixel symbolic", polylines="horizontal, vertical, diagonal, slope-1/2 'general', curved; 4..6 vertices",
                layers="0, 1 (2 thorough)", placement="rescale in {(1,1),(2,1),(1,2)} (+(2,3) thorough), offset in {(0,0),(1,2),(0,1),(1,0)}", lists="1..3 interfaces, with a repeated interface"),
    outside=["vertex positions are concrete", "8-bit saturation", "image sizes beyond 20 x 20", "read_myosin's file handling (PIL.Image.open)"],
    assumptions=["'average' normalisation: the mean intensity is non-zero (one job per sign of the mean; without integration pixels of either sign, with integration all pixels of that sign; division not forked on)",
                 "PIL getpixel((x, y)) reads pixel (int(x), int(y)) (truncation; measured on Pillow 12.3)", "np.median = median (If-term sorting network shim)"],
    trusted=["z3"],
)

LINES = {
    "horizontal": [(3, 6), (5, 6), (7, 6), (9, 6)],
    "vertical": [(6, 3), (6, 5), (6, 7), (6, 9)],
    "diagonal": [(3, 3), (5, 5), (7, 7), (9, 9)],
    "general": [(3, 4), (5, 5), (7, 6), (9, 7)],
    "curved": [(3, 8), (5, 6), (7, 5), (9, 5), (10, 7)],
}


class SymImage:
    def __init__(self, env, W, H, tag="px", scale=None, uniform=None):
        self.env, self.W, self.H, self.tag, self.scale, self.uniform = env, W, H, tag, scale, uniform
        self.pix = {}
        self.reads = []

    def pixel(self, x, y):
        if (x, y) not in self.pix:
            base = self.uniform if self.uniform is not None else self.env.real(f"{self.tag}_{x}_{y}")
            self.pix[(x, y)] = base
        p = self.pix[(x, y)]
        return p * self.scale if self.scale is not None else p

    def getpixel(self, xy):
        x, y = int(xy[0]), int(xy[1])          # PIL truncates float coordinates
        if not (0 <= x < self.W and 0 <= y < self.H):
            raise IndexError("image index out of range")
        self.reads.append((x, y))
        return self.pixel(x, y)


def _bigedge(fs, pts, first_id):
    vs = [fs.vertex.Vertex(first_id + i, p[0], p[1]) for i, p in enumerate(pts)]
    es = [fs.edge.SmallEdge(first_id + i, vs[i], vs[i + 1]) for i in range(len(pts) - 1)]
    for v in vs:
        v.ownCells = [0, 1]
    be = fs.edge.BigEdge(first_id, vs)
    be._keep = es
    return be


def _window(pos, L):
    return [(pos[0] + i, pos[1] + k) for i, k in itertools.product(range(-L, L + 1), range(-L, L + 1))]


def _median(env, vals):
    if env.mode == "sym":
        return sort_network_median(vals)
    return float(np.median([float(v) for v in vals]))


def _band(pts, L, rescale, offset):
    """distinct pixels of the layered band along the polyline + its length, from the property statement."""
    xy = [(p[0] * rescale[0] + offset[0], p[1] * rescale[1] + offset[1]) for p in pts]
    pixels = set()
    positions = set()
    length = 0.0
    for a, b in zip(xy[:-1], xy[1:]):
        a0, b0 = (math.ceil(a[0]), math.ceil(a[1])), (math.ceil(b[0]), math.ceil(b[1]))
        dx, dy = abs(a0[0] - b0[0]), abs(a0[1] - b0[1])
        ax = 0 if dx > dy else 1
        step = 1 if a0[ax] < b0[ax] else -1
        # linear interpolation by the same library routine the code uses: two positions count as one only if they are the
        # same floats, and a pixel is the truncation of exactly that float
        lin = interpolate.interp1d([a0[ax], b0[ax]], [a0[1 - ax], b0[1 - ax]], kind="linear") if a0[ax] != b0[ax] else None
        for v in range(a0[ax], b0[ax], step):
            other = float(lin(v))
            pos = (v, other) if ax == 0 else (other, v)
            for q in _window(pos, L):
                pixels.add((int(q[0]), int(q[1])))
                positions.add((float(q[0]), float(q[1])))
        length += math.hypot(a[0] - b[0], a[1] - b[1])
    _band.positions = sorted(positions)
    return pixels, length


def statistic(env, kinds, layers, integrate, normalize, rescale, offset, size=14, sign=1):
    import forsys as fs
    import forsys.myosin as my
    img = SymImage(env, size, size)
    bes = [_bigedge(fs, LINES[k], 100 * i) for i, k in enumerate(kinds)]
    kw = dict(rescale=list(rescale), offset=list(offset))
    if normalize == "average":
        for x in range(size):
            for y in range(size):
                (env.hint_positive(f"px_{x}_{y}") if sign > 0 else env.hint_value(f"px_{x}_{y}", -1.0 - ((3 * x + 5 * y) % 7) / 7.0))
    raw = []
    actual = []      # integrate=True: what the recorded finding leaves of the statement (one term per band *position*)
    dup = False
    for k in kinds:
        pts = LINES[k]
        if integrate:
            pix, length = _band(pts, layers, rescale, offset)
            raw.append(sum((img.pixel(x, y) for (x, y) in sorted(pix)[1:]), img.pixel(*sorted(pix)[0])) / length)
            pos = _band.positions
            dup = dup or len(pos) != len(pix)
            actual.append(sum((img.pixel(int(x), int(y)) for (x, y) in pos[1:]), img.pixel(int(pos[0][0]), int(pos[0][1]))) / length)
        else:
            meds = []
            for p in pts:
                pos = (p[0] * rescale[0] + offset[0], p[1] * rescale[1] + offset[1])
                meds.append(_median(env, [img.pixel(int(q[0]), int(q[1])) for q in _window(pos, layers)]))
            raw.append(sum(meds[1:], meds[0]) / len(meds))
    if normalize == "average":
        # the mean intensity is non-zero: one job per sign (pixels themselves are unconstrained)
        mean0 = sum(raw[1:], raw[0]) / len(raw)
        if integrate:
            # the band the code sums differs from the oracle's (recorded finding), so its mean is pinned through the pixels
            for x in range(size):
                for y in range(size):
                    env.assume(img.pixel(x, y) > 0 if sign > 0 else img.pixel(x, y) < 0)
        else:
            env.assume(mean0 > 0 if sign > 0 else mean0 < 0)
    res = my.get_intensities(bes, img, integrate, normalize, layers, **kw)
    obs = [Ob("one-value-per-interface-keyed-by-list-position", sorted(res.keys()) == list(range(len(kinds))))]
    if sorted(res.keys()) != list(range(len(kinds))):
        return obs
    ok = env.true()
    ok2 = env.true()
    if normalize == "average":
        mean = sum(raw[1:], raw[0]) / len(raw)
        for i in range(len(kinds)):
            ok = ok & env.eq(res[i] * mean, raw[i], tol=1e-9)
        if integrate and dup:
            mean2 = sum(actual[1:], actual[0]) / len(actual)
            for i in range(len(kinds)):
                ok2 = ok2 & env.eq(res[i] * mean2, actual[i], tol=1e-9)
        obs.append(Ob("average-normalised-values-average-to-one", env.eq(sum((res[i] for i in range(1, len(kinds))), res[0]), len(kinds), tol=1e-9)))
    else:
        for i in range(len(kinds)):
            ok = ok & env.eq(res[i], raw[i], tol=1e-9)
            if integrate and dup:
                ok2 = ok2 & env.eq(res[i], actual[i], tol=1e-9)
    # the recorded finding is confined to bands in which two positions read the same pixel; elsewhere the statement is
    # claimed in full, and inside the only tolerated deviation is that double counting
    obs.append(Ob("value-is-the-window-or-band-statistic" + ("-integrated" if integrate else ""), ok,
                  finding="band_positions_not_pixels" if integrate and dup else None))
    if integrate and dup:
        obs.append(Ob("integrated-value-deviates-only-by-the-recorded-double-counting", ok2))
    obs.append(Ob("stored-as-reference-values-in-list-order", env.conj([env.eq(be.gt, res[i]) for i, be in enumerate(bes)])))
    return obs


def homogeneity(env, kind, layers, integrate, size=14, kval=None):
    import forsys as fs
    import forsys.myosin as my
    if kval is None:
        k = env.real("k")      # any real factor, negative ones included
    else:
        from fractions import Fraction
        k = Fraction(kval).limit_denominator(1000) if env.mode == "sym" else float(kval)
    img = SymImage(env, size, size)
    img2 = SymImage(env, size, size, scale=k)
    img2.pix = img.pix
    be1 = _bigedge(fs, LINES[kind], 0)
    be2 = _bigedge(fs, LINES[kind], 100)
    r1 = my.get_intensities([be1], img, integrate, None, layers)
    r2 = my.get_intensities([be2], img2, integrate, None, layers)
    lem = []
    if env.mode == "sym" and not integrate and layers >= 1:
        # cut: one lemma per vertex window, median(k w) = k median(w)
        for p in LINES[kind]:
            w1 = [img.pixel(int(q[0]), int(q[1])) for q in _window(p, layers)]
            w2 = [img2.pixel(int(q[0]), int(q[1])) for q in _window(p, layers)]
            lem.append(env.eq(_median(env, w2), k * _median(env, w1)))
    obs = [Ob("scaling-the-image-scales-the-intensity", env.eq(r2[0], k * r1[0], tol=1e-9), lemmas=lem)]
    # uniformly bright image
    u = env.real("u")
    imgu = SymImage(env, size, size, uniform=u)
    bes = [_bigedge(fs, LINES[kd], 1000 + 100 * i) for i, kd in enumerate(("horizontal", "diagonal", "curved"))]
    ru = my.get_intensities(bes, imgu, integrate, None, layers)
    obs.append(Ob("uniform-image-gives-equal-intensities" + ("-integrated" if integrate else ""),
                  env.eq(ru[0], ru[1], tol=1e-9) & env.eq(ru[1], ru[2], tol=1e-9),
                  finding="integrated_uniform_image_not_equal" if integrate else None))
    if integrate:
        # what the recorded finding leaves: each interface reads u * (number of band positions) / length
        okc = env.true()
        for i, kd in enumerate(("horizontal", "diagonal", "curved")):
            _, length = _band(LINES[kd], layers, (1, 1), (0, 0))
            okc = okc & env.eq(ru[i] * length, u * len(_band.positions), tol=1e-9)
        obs.append(Ob("uniform-image-integrated-value-is-grey-level-times-band-size-over-length", okc))
    return obs


def repeated(env, layers):
    import forsys as fs
    import forsys.myosin as my
    img = SymImage(env, 14, 14)
    a = _bigedge(fs, LINES["horizontal"], 0)
    b = _bigedge(fs, LINES["vertical"], 100)
    err = None
    res = None
    try:
        res = my.get_intensities([a, b, a], img, False, None, layers)
    except (KeyError, IndexError, ValueError) as e:
        err = e
    good = err is None and res is not None and sorted(res.keys()) == [0, 1, 2]
    if good:
        good = env.eq(res[0], res[2])
    return [Ob("list-with-a-repeated-interface-gets-one-value-per-position", good, finding="repeated_interface_keyerror",
               note=f"{type(err).__name__}: {err}" if err else None)]


def jobs(tier):
    js = []
    quick = tier == "quick"
    placements = [((1, 1), (0, 0)), ((1, 1), (1, 2)), ((2, 1), (0, 1)), ((1, 2), (1, 0))] if quick else \
        [((1, 1), (0, 0)), ((1, 1), (1, 2)), ((1, 1), (2, 0)), ((2, 1), (0, 1)), ((1, 2), (1, 0)), ((2, 3), (1, 1))]
    for kinds in (["horizontal"], ["vertical", "diagonal"], ["general", "curved", "horizontal"]):
        for layers in ((0, 1) if quick else (0, 1, 2)):
            for integrate in (False, True):
                for normalize in (None, "average"):
                    for rescale, offset in placements:
                        if quick and (rescale, offset) != placements[0] and (normalize or len(kinds) != 2):
                            continue
                        for sign in ((1, -1) if normalize else (1,)):
                            js.append(Job(f"statistic-{'+'.join(kinds)}-L{layers}-int{int(integrate)}-{normalize}{'' if sign > 0 else '-negative-mean'}-r{rescale}-o{offset}", "c17:statistic",
                                          dict(kinds=kinds, layers=layers, integrate=integrate, normalize=normalize, rescale=list(rescale), offset=list(offset),
                                               size=(14 if quick else 20) * max(rescale) + 4, sign=sign), budget_s=900, weight=3 if layers else 1,
                                          opts=dict(div_policy="assume") if normalize else {}))
    for kind in ("horizontal", "general"):
        for layers in (0, 1):      # 25-pixel median windows: the per-window homogeneity lemma is not decided within 60 s
            for integrate in (False, True):
                # symbolic factor where the statistic is a linear form; for median windows (If-networks) two concrete factors
                for kval in (None,):
                    js.append(Job(f"homogeneity-{kind}-L{layers}-int{int(integrate)}-k={kval}", "c17:homogeneity",
                                  dict(kind=kind, layers=layers, integrate=integrate, kval=kval), budget_s=900, weight=3))
    js.append(Job("repeated-interface-L0", "c17:repeated", dict(layers=0), budget_s=300))
    return js
