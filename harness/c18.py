"""C18 -- coarse-grained stress tensor: symmetric, linear, isotropic for pure pressure.

Real stress_tensor / get_cells_df / get_big_edges_df / Frame.calculate_stress_tensor on catalogue tissues with concrete
geometry (pandas boolean indexing and np.histogram need numbers) and *symbolic* cell pressures and interface tensions.
"""
import numpy as np

from symx.runner import Job
from symx.harness import Ob
from symx import stubs, tissue
from harness.common import catalogue

PROPERTY = "C18"

META = dict(
    explanation="Every pressure and every tension is a symbol; each tensor entry is therefore a linear form whose coefficients are "
                "compared with an independently computed oracle (cells within the radius, their areas, the interface vectors).",
    bounds=dict(tissues="T3, K3 (K4, R7 thorough) with curved interfaces", grid="1..4 quick, 1..12 thorough", radius="0.5, 1, 2, 6 average cell radii"),
    outside=["geometry is concrete (catalogue tissues)", "np.linalg.eig itself (only its argument and the key it is stored under)", "parsed fixtures"],
    assumptions=["np.linalg.eig replaced by a token recording its argument", "pandas / np.histogram run concretely"],
    trusted=["z3"],
)


def tensor(env, topo, grid, radius, scale=1.0):
    import forsys as fs
    import forsys.stress_tensor as st
    spec = catalogue(topo, n_spoke=4, n_border=2, bulge=0.1)
    if scale != 1.0:
        spec.points = {k: (x * scale, y * scale) for k, (x, y) in spec.points.items()}     # the same tissue in another length unit
    runs = {}
    alpha, beta = env.real("alpha"), env.real("beta")
    P, T = {}, {}
    for tag in ("a", "b", "c", "iso"):
        b = tissue.build(spec, fs)
        fr = fs.frames.Frame(0, b.vertices, b.edges, b.cells, time=0)
        for cid, cell in fr.cells.items():
            cn = b.cell_name[cid]
            if tag in ("a", "b"):
                P.setdefault(tag, {})[cn] = env.real(f"p{tag}_{cn}")
                cell.pressure = P[tag][cn]
            elif tag == "c":
                cell.pressure = alpha * P["a"][cn] + beta * P["b"][cn]
            else:
                cell.pressure = P["a"]["iso"] if "iso" in P["a"] else P["a"].setdefault("iso", env.real("p_iso"))
        for be in fr.big_edges.values():
            key = tuple(be.get_vertices_ids())
            if tag in ("a", "b"):
                T.setdefault(tag, {})[key] = env.real(f"t{tag}_{be.big_edge_id}")
                be.tension = T[tag][key]
            elif tag == "c":
                be.tension = alpha * T["a"][key] + beta * T["b"][key]
            else:
                be.tension = 0.0
        sig, centers, bins = st.stress_tensor(fr, grid, radius)
        runs[tag] = (b, fr, sig, centers, bins)
    b, fr, sig, centers, bins = runs["a"]
    obs = []
    # independent oracle for 'some cell centre within the radius'
    cms = {cid: (float(np.mean([v.x for v in c.vertices])), float(np.mean([v.y for v in c.vertices]))) for cid, c in fr.cells.items()}
    areas = {cid: abs(float(c.get_area())) for cid, c in fr.cells.items()}
    rmin = radius * np.sqrt(np.mean(list(areas.values())) / np.pi)
    sym_ok, zero_ok, lin_ok, iso_ok = env.true(), env.true(), env.true(), env.true()
    keys_ok = len(sig) == grid * grid
    for row in range(grid):
        for col in range(grid):
            key = f"{row}{col}"
            if key not in sig:
                keys_ok = False
                continue
            if sum(1 for r_ in range(grid) for c_ in range(grid) if f"{r_}{c_}" == key) > 1:
                continue        # key shared by two grid cells: the recorded finding; nothing per-cell can be asserted
            S = sig[key]
            cx, cy = (bins[0][row] + bins[0][row + 1]) / 2, (bins[1][col] + bins[1][col + 1]) / 2
            inside = [cid for cid, (x, y) in cms.items() if (cx - x) ** 2 + (cy - y) ** 2 <= rmin ** 2]
            sym_ok = sym_ok & env.eq(S[0][1], S[1][0])
            if not inside:
                zero_ok = zero_ok & env.conj([env.eq(S[i][j], 0) for i in range(2) for j in range(2)])
            Sa, Sb, Sc, Si = runs["a"][2][key], runs["b"][2][key], runs["c"][2][key], runs["iso"][2][key]
            for i in range(2):
                for j in range(2):
                    lin_ok = lin_ok & env.eq(Sc[i][j], alpha * Sa[i][j] + beta * Sb[i][j], tol=1e-6)
            if inside:
                p = P["a"]["iso"]
                # the areas are concrete doubles; the code divides the exact sum of p*A_i by the *rounded* sum of the A_i:
                # ratio = exact sum / rounded sum is 1 up to a few ulp (checked), and the entry must be exactly -p*ratio
                from fractions import Fraction
                import pandas as pd
                exact = sum((Fraction(areas[cid]) for cid in inside), Fraction(0))
                # the code sums the selected areas with pandas (pairwise summation): use the very same operation
                rounded = Fraction(float(pd.Series([areas[cid] for cid in fr.cells if cid in inside]).sum()))
                ratio = exact / rounded
                iso_ok = iso_ok & (abs(float(ratio) - 1.0) < 1e-12)
                if env.mode == "sym":
                    iso_ok = iso_ok & env.close(Si[0][0], -p * ratio, 0) & env.close(Si[1][1], -p * ratio, 0)
                else:
                    iso_ok = iso_ok & env.eq(Si[0][0], -p, tol=1e-9) & env.eq(Si[1][1], -p, tol=1e-9)
                iso_ok = iso_ok & env.eq(Si[0][1], 0) & env.eq(Si[1][0], 0)
    coll = "grid_key_collision" if grid >= 12 else None       # keys only collide from 12 x 12 on
    obs.append(Ob("one-tensor-per-grid-cell", keys_ok, finding=coll))
    obs.append(Ob("tensor-symmetric", sym_ok))
    obs.append(Ob("zero-where-no-cell-centre-lies-within-the-radius", zero_ok))
    obs.append(Ob("jointly-linear-in-pressures-and-tensions", lin_ok))
    obs.append(Ob("pure-uniform-pressure-gives-minus-p-times-identity", iso_ok))
    # principal stresses: eig of the tensor of grid cell (r, c) stored under the centre of that grid cell
    fr.calculate_stress_tensor(grid + 1, radius)      # an earlier analysis with another grid must leave no trace
    fr.calculate_stress_tensor(grid, radius)
    ps = fr.principal_stress
    sig2 = fr.stress_tensor[0]
    xc, yc = fr.stress_tensor[1]
    pr_ok = env.true() & (len(ps) == grid * grid)
    for row in range(grid):
        for col in range(grid):
            tok = ps.get((xc[row], yc[col]))
            if sum(1 for r_ in range(grid) for c_ in range(grid) if f"{r_}{c_}" == f"{row}{col}") > 1:
                pr_ok = pr_ok & False        # the tensor of a colliding key belongs to another grid cell (finding)
                continue
            if tok is None:
                pr_ok = pr_ok & False
                continue
            want = sig2[f"{row}{col}"] if grid <= 10 else None
            ref = runs["a"][2].get(f"{row}{col}")
            if env.mode == "sym" and hasattr(tok, "S"):
                Sarg = tok.S
                if Sarg is None or ref is None:
                    pr_ok = pr_ok & False
                else:
                    pr_ok = pr_ok & env.conj([env.eq(Sarg[i][j], ref[i][j]) for i in range(2) for j in range(2)])
            else:
                # concrete tensor (no symbol reached this grid cell, or concrete replay): real eigen-system
                from symx.core import has_sym
                if ref is None or has_sym(ref):
                    pr_ok = pr_ok & False
                else:
                    vals = np.sort(np.asarray(tok[0], dtype=float))
                    refv = np.sort(np.linalg.eigvalsh(np.asarray(ref, dtype=float)))
                    pr_ok = pr_ok & bool(np.allclose(vals, refv, atol=1e-9))
    obs.append(Ob("principal-stresses-are-the-eigen-systems-of-the-tensors-at-their-grid-centres", pr_ok, finding=coll))
    # the same Frame analysed again after its pressures and tensions were replaced: the result is that of the new values
    for cid, cell in fr.cells.items():
        cell.pressure = P["b"][b.cell_name[cid]]
    for be in fr.big_edges.values():
        be.tension = T["b"][tuple(be.get_vertices_ids())]
    sig3, _, _ = st.stress_tensor(fr, grid, radius)
    re_ok = env.true() & (len(sig3) == len(runs["b"][2]))
    for row in range(grid):
        for col in range(grid):
            key = f"{row}{col}"
            if sum(1 for r_ in range(grid) for c_ in range(grid) if f"{r_}{c_}" == key) > 1 or key not in sig3 or key not in runs["b"][2]:
                continue
            for i in range(2):
                for j in range(2):
                    re_ok = re_ok & env.eq(sig3[key][i][j], runs["b"][2][key][i][j], tol=1e-9)
    obs.append(Ob("re-analysis-of-the-same-frame-reflects-the-current-pressures-and-tensions", re_ok))
    return obs


def jobs(tier):
    js = []
    quick = tier == "quick"
    for topo in (("T3", "K3") if quick else ("T3", "K3", "K4", "R7")):
        for grid in ((1, 2, 4) if quick else (1, 2, 3, 5, 8, 10, 11, 12)):
            for radius in ((0.5, 2) if quick else (0.5, 1, 2, 6)):
                if grid > 10 and radius != 1:
                    continue
                js.append(Job(f"tensor-{topo}-grid{grid}-r{radius}", "c18:tensor", dict(topo=topo, grid=grid, radius=radius), budget_s=600,
                              opts=dict(cheap_forks=True)))
    js.append(Job("tensor-T3-grid2-r2-tiny-length-unit", "c18:tensor", dict(topo="T3", grid=2, radius=2, scale=2e-5), budget_s=600,
                  opts=dict(cheap_forks=True)))
    js.append(Job("tensor-T3-grid12-r1", "c18:tensor", dict(topo="T3", grid=12, radius=1), budget_s=600, opts=dict(cheap_forks=True)))
    return js
