"""symx core: dynamic symbolic execution of real Python/numpy code over the reals with z3.

SymReal / SymBool proxies flow through the real forsys code (lists, dtype=object arrays);
the only place paths fork is SymBool.__bool__.  The explorer re-executes the harness once
per path (decision-schedule replay, DFS).  See /verif/DESIGN.md section 2.1.
"""
import fractions
import math
import os
import time
import numbers

import numpy as np
import z3

Fraction = fractions.Fraction


class Inconclusive(BaseException):
    """An operation the engine cannot model (float() of a symbol, unknown solver verdict ...).
    BaseException so that `except Exception` inside the code under test cannot swallow it."""


class PathAbort(BaseException):
    """Current path turned out to be infeasible."""


class PathCap(BaseException):
    pass


# ----------------------------------------------------------------------------------------
# variable sets / slicing helpers
_VARS_CACHE = {}


def vars_of(e):
    """frozenset of names of uninterpreted constants in z3 term e (cached by ast id)."""
    k = e.get_id()
    r = _VARS_CACHE.get(k)
    if r is not None:
        return r[1]
    acc = set()
    stack = [e]
    seen = set()
    while stack:
        y = stack.pop()
        i = y.get_id()
        if i in seen:
            continue
        seen.add(i)
        c = _VARS_CACHE.get(i)
        if c is not None:
            acc |= c[1]
            continue
        if z3.is_const(y):
            if y.decl().kind() == z3.Z3_OP_UNINTERPRETED:
                acc.add(y.decl().name())
        else:
            stack.extend(y.children())
    r = frozenset(acc)
    _VARS_CACHE[k] = (e, r)      # keep e alive so that ids are not reused
    return r


_LIN_CACHE = {}
_MONO = {}          # monomial key (sorted tuple of atom names) -> (z3 var, is_even_power)
_ATOMS = {}         # opaque real-valued subterm (ite, division ...) sexpr -> (z3 var, defining constraint | None)
_POLY_CACHE = {}
_ATOM_BY_NAME = {}


def _mono_var(key):
    m = _MONO.get(key)
    if m is None:
        cnt = {}
        for k in key:
            cnt[k] = cnt.get(k, 0) + 1
        m = (z3.Real("mono!%d" % len(_MONO)), all(v % 2 == 0 for v in cnt.values()))
        _MONO[key] = m
    return m[0]


def _padd(p, q, sign=1):
    out = dict(p)
    for k, v in q.items():
        nv = out.get(k, 0) + sign * v
        if nv == 0:
            out.pop(k, None)
        else:
            out[k] = nv
    return out


def _pmul(p, q):
    out = {}
    for k1, v1 in p.items():
        for k2, v2 in q.items():
            k = tuple(sorted(k1 + k2))
            nv = out.get(k, 0) + v1 * v2
            if nv == 0:
                out.pop(k, None)
            else:
                out[k] = nv
    if len(out) > 200000:
        raise z3.Z3Exception("polynomial too large for the relaxation")
    return out


def poly_of(t, side):
    """polynomial normal form {monomial: coefficient} of a z3 Real term; opaque subterms become atoms."""
    i = t.get_id()
    r = _POLY_CACHE.get(i)
    if r is not None:
        return r[1]
    if z3.is_rational_value(t):
        v = Fraction(t.numerator_as_long(), t.denominator_as_long())
        out = {(): v} if v != 0 else {}
    elif z3.is_const(t) and t.decl().kind() == z3.Z3_OP_UNINTERPRETED:
        out = {(t.decl().name(),): Fraction(1)}
    else:
        k = t.decl().kind()
        ch = t.children()
        if k == z3.Z3_OP_ADD:
            out = {}
            for c in ch:
                out = _padd(out, poly_of(c, side))
        elif k == z3.Z3_OP_SUB:
            out = poly_of(ch[0], side)
            for c in ch[1:]:
                out = _padd(out, poly_of(c, side), -1)
        elif k == z3.Z3_OP_UMINUS:
            out = _padd({}, poly_of(ch[0], side), -1)
        elif k == z3.Z3_OP_MUL:
            out = {(): Fraction(1)}
            for c in ch:
                out = _pmul(out, poly_of(c, side))
        elif k == z3.Z3_OP_POWER and z3.is_rational_value(ch[1]) and ch[1].denominator_as_long() == 1 \
                and 0 <= ch[1].numerator_as_long() <= 8:
            base = poly_of(ch[0], side)
            out = {(): Fraction(1)}
            for _ in range(ch[1].numerator_as_long()):
                out = _pmul(out, base)
        elif k == z3.Z3_OP_DIV and z3.is_rational_value(ch[1]) and ch[1].numerator_as_long() != 0:
            d = Fraction(ch[1].numerator_as_long(), ch[1].denominator_as_long())
            out = {kk: v / d for kk, v in poly_of(ch[0], side).items()}
        elif k == z3.Z3_OP_TO_REAL:
            out = poly_of(ch[0], side)
        else:
            key = t.sexpr()
            a = _ATOMS.get(key)
            if a is None:
                v = z3.Real("atom!%d" % len(_ATOMS))
                d = None
                if k == z3.Z3_OP_ITE:
                    d = (v, ch)
                a = (v, d)
                _ATOMS[key] = a
                _ATOM_BY_NAME[v.decl().name()] = a
            if a[1] is not None:
                side[a[0].decl().name()] = a
            out = {(a[0].decl().name(),): Fraction(1)}
    _POLY_CACHE[i] = (t, out)
    return out


def _lin_expr(p):
    terms = []
    const = Fraction(0)
    for k, v in p.items():
        if k == ():
            const += v
        elif len(k) == 1:
            terms.append(z3.RealVal(str(v)) * z3.Real(k[0]))
        else:
            terms.append(z3.RealVal(str(v)) * _mono_var(k))
    e = z3.Sum(terms) if terms else z3.RealVal(0)
    return e + z3.RealVal(str(const)) if const != 0 else e


def linearise(e, side=None):
    """Linear relaxation of a Boolean combination of polynomial (in)equalities: every nonlinear monomial is replaced by a
    fresh variable (same monomial -> same variable).  Own polynomial normal form (z3's simplifier rewrites products
    compared with zero into sign case splits, which would hide the monomials)."""
    if side is None:
        side = {}
    i = e.get_id()
    r = _LIN_CACHE.get(i)
    if r is not None:
        side.update(r[2])
        return r[1]
    myside = {}
    out = _lin_bool(e, myside)
    _LIN_CACHE[i] = (e, out, myside)
    side.update(myside)
    return out


def _lin_bool(e, side):
    if z3.is_true(e) or z3.is_false(e):
        return e
    k = e.decl().kind()
    ch = e.children()
    if k in (z3.Z3_OP_AND, z3.Z3_OP_OR, z3.Z3_OP_NOT, z3.Z3_OP_IMPLIES, z3.Z3_OP_XOR):
        return e.decl()(*[_lin_bool(c, side) for c in ch])
    if k == z3.Z3_OP_ITE and z3.is_bool(e):
        return z3.If(_lin_bool(ch[0], side), _lin_bool(ch[1], side), _lin_bool(ch[2], side))
    if k in (z3.Z3_OP_EQ, z3.Z3_OP_DISTINCT) and ch and z3.is_bool(ch[0]):
        return e.decl()(*[_lin_bool(c, side) for c in ch])
    if k in (z3.Z3_OP_LE, z3.Z3_OP_LT, z3.Z3_OP_GE, z3.Z3_OP_GT, z3.Z3_OP_EQ) and len(ch) == 2 and z3.is_arith(ch[0]):
        d = _lin_expr(_padd(poly_of(ch[0], side), poly_of(ch[1], side), -1))
        zero = z3.RealVal(0)
        return {z3.Z3_OP_LE: d <= zero, z3.Z3_OP_LT: d < zero, z3.Z3_OP_GE: d >= zero, z3.Z3_OP_GT: d > zero,
                z3.Z3_OP_EQ: d == zero}[k]
    if k == z3.Z3_OP_DISTINCT and len(ch) == 2 and z3.is_arith(ch[0]):
        d = _lin_expr(_padd(poly_of(ch[0], side), poly_of(ch[1], side), -1))
        return d != z3.RealVal(0)
    return e        # Boolean variable or something opaque


def _flatten_and(cs):
    out = []
    stack = list(cs)
    while stack:
        c = stack.pop()
        if z3.is_and(c):
            stack.extend(c.children())
        else:
            out.append(c)
    return out


def eliminate_definitions(constraints):
    """substitute definitional equalities  aux!k == term  (aux not in term) into the other constraints."""
    flat = _flatten_and(constraints)
    eqs = {}
    for c in flat:
        if z3.is_eq(c):
            l, r = c.children()
            for a, b in ((l, r), (r, l)):
                if z3.is_const(a) and a.decl().kind() == z3.Z3_OP_UNINTERPRETED and "!" in a.decl().name() \
                        and a.decl().name() not in eqs and a.decl().name() not in vars_of(b) and z3.is_real(a):
                    eqs[a.decl().name()] = (a, b)
                    break
    if not eqs:
        return flat
    # resolve the definitions among themselves in creation order (aux!k only depends on earlier aux variables)
    order = sorted(eqs.values(), key=lambda ab: int(ab[0].decl().name().rsplit("!", 1)[1]))
    resolved = []
    for a, b in order:
        if resolved and not vars_of(b).isdisjoint({x.decl().name() for x, _ in resolved}):
            b = z3.substitute(b, *resolved)
        resolved.append((a, b))
    names = {a.decl().name() for a, _ in resolved}
    out = []
    for c in flat:
        if vars_of(c).isdisjoint(names):
            out.append(c)
        else:
            out.append(z3.substitute(c, *resolved))
    return out


def _var_signs(flat, side):
    """syntactic sign facts  v >= 0 / v <= 0  from top-level conjuncts that constrain a single variable."""
    sg = {}
    for c0 in flat:
        hit = _SIGN_CACHE.get(c0.get_id())
        if hit is None:
            hit = (c0, _one_sign(c0, side))
            _SIGN_CACHE[c0.get_id()] = hit
        if hit[1] is not None:
            sg.setdefault(hit[1][0], set()).update(hit[1][1])
    return sg


_SIGN_CACHE = {}


def _one_sign(c, side):
    """(variable name, {sign facts}) if the conjunct constrains a single variable against zero, else None"""
    sg = {}
    for c in [c]:
        if not z3.is_app(c):
            continue
        k = c.decl().kind()
        neg = False
        if k == z3.Z3_OP_NOT:
            c = c.children()[0]
            k = c.decl().kind()
            neg = True
        ch = c.children()
        if k not in (z3.Z3_OP_LE, z3.Z3_OP_LT, z3.Z3_OP_GE, z3.Z3_OP_GT, z3.Z3_OP_EQ) or len(ch) != 2 or not z3.is_arith(ch[0]):
            continue
        try:
            p = _padd(poly_of(ch[0], side), poly_of(ch[1], side), -1)
        except z3.Z3Exception:
            continue
        const = Fraction(0)
        if len(p) == 2 and () in p:
            const = p[()]
            p = {kk: vv for kk, vv in p.items() if kk != ()}
        if len(p) != 1:
            continue
        (key, coef), = p.items()
        if len(key) != 1:
            continue
        rel = {z3.Z3_OP_LE: "<=", z3.Z3_OP_LT: "<", z3.Z3_OP_GE: ">=", z3.Z3_OP_GT: ">", z3.Z3_OP_EQ: "=="}[k]
        if const != 0:
            # numeric bound  coef*v + const  rel  0
            if neg:
                rel = {"<=": ">", "<": ">=", ">=": "<", ">": "<=", "==": None}[rel]
            if rel is None:
                continue
            if coef < 0:
                rel = {"<=": ">=", "<": ">", ">=": "<=", ">": "<", "==": "=="}[rel]
            bound = -const / coef
            cur = sg.setdefault(key[0], set())
            if rel in (">=", ">", "=="):
                cur.add(("lb", bound))
                if bound >= 0:
                    cur.add("nonneg")
                if bound > 0 or (bound == 0 and rel == ">"):
                    cur.add("pos")
            if rel in ("<=", "<", "=="):
                cur.add(("ub", bound))
                if bound <= 0:
                    cur.add("nonpos")
                if bound < 0 or (bound == 0 and rel == "<"):
                    cur.add("neg")
            continue
        if neg:
            rel = {"<=": ">", "<": ">=", ">=": "<", ">": "<=", "==": None}[rel]
        if rel is None:
            continue
        if coef < 0:
            rel = {"<=": ">=", "<": ">", ">=": "<=", ">": "<", "==": "=="}[rel]
        cur = sg.setdefault(key[0], set())
        if rel in (">=", ">", "=="):
            cur.add("nonneg")
        if rel in ("<=", "<", "=="):
            cur.add("nonpos")
        if rel == ">":
            cur.add("pos")
        if rel == "<":
            cur.add("neg")
    for k, v in sg.items():
        return (k, v)
    return None


def relaxation_unsat(constraints, timeout_ms=3000):
    """LRA relaxation over monomials of: the constraints as given, and the same with definitional equalities of auxiliary
    variables substituted; plus sign rules (even powers >= 0, products of sign-known variables, v*v = 0 => v = 0)."""
    side = {}
    flat = _flatten_and(constraints)
    elim = eliminate_definitions(constraints)
    seen = set()
    lin = []
    for c in flat + elim:
        if c.get_id() in seen:
            continue
        seen.add(c.get_id())
        lin.append(linearise(c, side))
    s = z3.Solver()
    s.set("timeout", int(timeout_ms))
    s.add(*lin)
    done = set()
    while True:
        names = set()
        for c in s.assertions():
            names |= vars_of(c)
        todo = [n for n in names if n.startswith("atom!") and n not in done]
        if not todo:
            break
        for n in todo:
            done.add(n)
            v, d = _ATOM_BY_NAME[n]
            if d is not None:
                var, ch = d
                s.add(var == z3.If(_lin_bool(ch[0], side), _lin_expr(poly_of(ch[1], side)), _lin_expr(poly_of(ch[2], side))))
    names = set()
    for c in s.assertions():
        names |= vars_of(c)
    sg = _var_signs(flat, side)
    for key, (v, even) in list(_MONO.items()):
        if v.decl().name() not in names:
            continue
        if even:
            s.add(v >= 0)
            if len(set(key)) == 1 and len(key) == 2:
                s.add(z3.Implies(v <= 0, z3.Real(key[0]) == 0))
                fs_ = sg.get(key[0]) or ()
                lbs = [f[1] for f in fs_ if isinstance(f, tuple) and f[0] == "lb"] + ([Fraction(0)] if "nonneg" in fs_ else [])
                ubs = [f[1] for f in fs_ if isinstance(f, tuple) and f[0] == "ub"] + ([Fraction(0)] if "nonpos" in fs_ else [])
                if lbs and ubs:
                    lo, hi = max(lbs), min(ubs)
                    s.add(v <= z3.RealVal(str(max(lo * lo, hi * hi))))
                    # secant over-estimator of the square on [lo, hi]
                    s.add(v <= z3.RealVal(str(lo + hi)) * z3.Real(key[0]) - z3.RealVal(str(lo * hi)))
            continue
        if len(key) == 2:
            # McCormick envelope from numeric bounds lo <= a <= hi, lo' <= b <= hi' (squares included)
            def rng(name):
                fs_ = sg.get(name) or ()
                lbs = [f[1] for f in fs_ if isinstance(f, tuple) and f[0] == "lb"] + ([Fraction(0)] if "nonneg" in fs_ else [])
                ubs = [f[1] for f in fs_ if isinstance(f, tuple) and f[0] == "ub"] + ([Fraction(0)] if "nonpos" in fs_ else [])
                return (max(lbs) if lbs else None, min(ubs) if ubs else None)
            (la, ha), (lb_, hb) = rng(key[0]), rng(key[1])
            A_, B_ = z3.Real(key[0]), z3.Real(key[1])
            rv = lambda q: z3.RealVal(str(q))
            if la is not None and lb_ is not None:
                s.add(v >= rv(la) * B_ + rv(lb_) * A_ - rv(la * lb_))
            if ha is not None and hb is not None:
                s.add(v >= rv(ha) * B_ + rv(hb) * A_ - rv(ha * hb))
            if la is not None and hb is not None:
                s.add(v <= rv(la) * B_ + rv(hb) * A_ - rv(la * hb))
            if ha is not None and lb_ is not None:
                s.add(v <= rv(ha) * B_ + rv(lb_) * A_ - rv(ha * lb_))
        if len(key) == 2 and key[0] != key[1]:
            # a strictly signed factor transfers the other factor's sign to the product (and its zero-ness)
            for a, b in ((key[0], key[1]), (key[1], key[0])):
                fa = sg.get(a) or ()
                if "pos" in fa or "neg" in fa:
                    o = z3.Real(b)
                    sgn = 1 if "pos" in fa else -1
                    s.add(z3.Implies(v >= 0, o >= 0) if sgn > 0 else z3.Implies(v >= 0, o <= 0))
                    s.add(z3.Implies(v <= 0, o <= 0) if sgn > 0 else z3.Implies(v <= 0, o >= 0))
                    break
        sign = 1
        known = True
        for f in key:
            fs = sg.get(f)
            if not fs:
                known = False
                break
            if "nonneg" in fs and "nonpos" in fs:
                sign = 0
            elif "nonpos" in fs:
                sign = -sign
        if known:
            s.add(v == 0 if sign == 0 else (v >= 0 if sign > 0 else v <= 0))
    return str(s.check()) == "unsat"


class Def:
    """Definition of an auxiliary variable (quotient, root, rounding perturbation, stub result)."""
    __slots__ = ("var", "names", "kind", "exact", "abstract", "vars")

    def __init__(self, var, kind, exact, abstract=None):
        self.var = var
        if isinstance(var, (list, tuple)):
            self.names = frozenset(v.decl().name() for v in var)
        else:
            self.names = frozenset([var.decl().name()])
        self.kind = kind
        self.exact = exact
        self.abstract = abstract if abstract is not None else exact
        self.vars = vars_of(exact) | vars_of(self.abstract)


class Stats:
    def __init__(self):
        self.queries = {"sat": 0, "unsat": 0, "unknown": 0}
        self.fork_queries = 0
        self.final_queries = 0
        self.solver_s = 0.0
        self.cache_hits = 0
        self.max_query_s = 0.0
        self.paths = 0
        self.infeasible_paths = 0

    def as_dict(self):
        return dict(self.__dict__)


class Ctx:
    def __init__(self, opts=None):
        self.opts = dict(fork_timeout_ms=5000, final_timeout_ms=60000, div_policy="fork")
        self.deadline = None
        if opts:
            self.opts.update(opts)
        self.pc = []          # list of (z3 bool, soft)
        self.defs = []        # list of Def
        self.decisions = []   # replay schedule: (value, has_alternative)
        self.pos = 0
        self.fresh = 0
        self.memo = {}        # sqrt / div / round memo tables
        self.stats = None
        self.notes = []       # free-form events (stubs hit ...)
        self.cache = None
        self.inputs = {}      # name -> z3 var, harness inputs (for counterexamples)
        self.hints = {}       # 'unit': [(xname, yname)], 'positive': [names] -- only used by sample_model

    # -- bookkeeping
    def newvar(self, name):
        self.fresh += 1
        return z3.Real(f"{name}!{self.fresh}")

    def assume(self, e, soft=False):
        e = as_z3_bool(e)
        if z3.is_true(e):
            return
        self.pc.append((e, soft))

    def add_def(self, d):
        self.defs.append(d)

    # -- solving
    def _slice(self, seeds, level):
        """constraint-independence slice.  level 0: hard pc + abstract defs in the cone;
        1: + soft pc; 2: exact defs."""
        need = set(seeds)
        used = []
        rest = []
        for e, soft in self.pc:
            if soft and level == 0:
                continue
            rest.append((e, vars_of(e), None))
        for d in self.defs:
            rest.append((d.exact if level >= 2 else d.abstract, d.vars, d))
        changed = True
        while changed and rest:
            changed = False
            nr = []
            for item in rest:
                e, vs, d = item
                if d is not None:
                    hit = bool(d.names & need)
                else:
                    hit = bool(vs & need)
                if hit:
                    used.append(e)
                    if not vs <= need:
                        need |= vs
                    changed = True
                else:
                    nr.append(item)
            rest = nr
        return used

    def _z3_check(self, constraints, timeout_ms, want_model):
        s = z3.Solver()
        s.set("timeout", int(max(timeout_ms, 1)))
        s.add(*constraints)
        r = str(s.check())
        vals = None
        if r == "sat" and want_model:
            vals = model_values(s.model())
            if vals is None:
                r = "unknown"
        return r, vals

    def solve(self, constraints, timeout_ms, want_model=False):
        """'sat' | 'unsat' | 'unknown' (+ dict name -> float when want_model and sat).
        Order: linear relaxation (unsat only) -> z3 (short) -> concretise-and-solve sampling (sat only) -> z3 (full)."""
        key = None
        if self.cache is not None and not want_model:
            key = (tuple(sorted(c.get_id() for c in constraints)))
            if key in self.cache:
                self.stats.cache_hits += 1
                return self.cache[key], None
        t0 = time.time()
        st = self.stats
        rs, vals = None, None
        if self.opts.get("relax", True):
            try:
                if relaxation_unsat(constraints):
                    rs = "unsat"
                    st.relaxed_unsat = getattr(st, "relaxed_unsat", 0) + 1
            except z3.Z3Exception:
                rs = None
        if rs is None:
            short = min(timeout_ms, self.opts.get("short_timeout_ms", 3000))
            rs, vals = self._z3_check(constraints, short, want_model)
            if rs == "unknown" and self.opts.get("sample", True):
                v = self.sample_model(constraints)
                if v is not None:
                    rs, vals = "sat", v
                    st.sampled_sat = getattr(st, "sampled_sat", 0) + 1
            if rs == "unknown" and timeout_ms > short:
                rs, vals = self._z3_check(constraints, timeout_ms - short, want_model)
        dt = time.time() - t0
        st.solver_s += dt
        st.max_query_s = max(st.max_query_s, dt)
        st.queries[rs] += 1
        if dt > 2 and os.environ.get("SYMX_DEBUG"):
            import sys
            names = set()
            for c in constraints:
                names |= vars_of(c)
            print(f"[slow query] {rs} {dt:.1f}s constraints={len(constraints)} vars={len(names)} last={str(constraints[-1])[:200]}", file=sys.stderr, flush=True)
        if key is not None:
            self.cache[key] = rs
            self._keep = getattr(self, "_keep", [])
            self._keep.append(constraints)
        return rs, (vals if want_model else None)

    FLOAT_EXACT_UNITS = [(1, 0), (0, 1), (Fraction(3, 5), Fraction(4, 5)), (Fraction(4, 5), Fraction(3, 5)),
                         (Fraction(7, 25), Fraction(24, 25)), (Fraction(24, 25), Fraction(7, 25)),
                         (Fraction(44, 125), Fraction(117, 125)), (Fraction(117, 125), Fraction(44, 125))]

    def random_inputs(self, attempt):
        """a concrete value for every harness input (hint-guided, unit pairs on the unit circle); used only to look for a
        counterexample by running the real code when the solver answered `unknown`"""
        import random
        rng = self.opts.get("_rng2")
        if rng is None:
            rng = random.Random(int(os.environ.get("VERIF_SEED", "0") or 0) + 777)
            self.opts["_rng2"] = rng
        hv = self.hints.get("values", {})
        positive = set(self.hints.get("positive", []))
        out = {}
        in_unit = set()
        for a, b in self.hints.get("unit", []):
            ang = rng.uniform(-math.pi, math.pi)
            if a in hv and b in hv and attempt % 2 == 0:
                ang = math.atan2(hv[b], hv[a]) + rng.uniform(-0.4, 0.4)
            out[a], out[b] = math.cos(ang), math.sin(ang)
            in_unit |= {a, b}
        for n in self.inputs:
            if n in in_unit:
                continue
            if n in hv and attempt % 2 == 0:
                v = hv[n] * (1 + rng.uniform(-0.3, 0.3)) + rng.uniform(-0.05, 0.05)
            else:
                v = rng.uniform(-3, 3)
            if n in positive:
                v = abs(v) + 0.05
                if attempt % 3 == 2:
                    v *= 10 ** rng.uniform(-4, 3)      # also very small / large positive factors (units, scales)
            out[n] = v
        return out

    def float_exact_model(self, constraints, timeout_ms=10000):
        """model of `constraints` in which every hinted unit vector is one of a few vectors whose norms and mutual dot
        products are exact in IEEE doubles (finite-domain search done by the solver)."""
        names = set()
        for c in constraints:
            names |= vars_of(c)
        fam = []
        for x, y in self.FLOAT_EXACT_UNITS:
            for sx in (1, -1):
                for sy in (1, -1):
                    v = (Fraction(x) * sx, Fraction(y) * sy)
                    if v not in fam:
                        fam.append(v)
        extra = []
        for a, b in self.hints.get("unit", []):
            if a in names or b in names:
                A, B = z3.Real(a), z3.Real(b)
                extra.append(z3.Or(*[z3.And(A == z3.RealVal(str(x)), B == z3.RealVal(str(y))) for x, y in fam]))
        if not extra:
            return None
        r, vals = self._z3_check(list(constraints) + extra, timeout_ms, True)
        return vals if r == "sat" else None

    def sample_model(self, constraints, tries=None, per_try_ms=1500, float_exact=False):
        """Sat-side helper for nonlinear systems nlsat cannot model: give the harness inputs concrete rational values
        (unit-vector pairs from the rational parametrisation of the circle), solve the rest.  Any model found is a
        genuine model of `constraints` (checked by z3 on the substituted system)."""
        import random
        tries = tries or self.opts.get("sample_tries", 12)
        names = set()
        for c in constraints:
            names |= vars_of(c)
        inputs = [n for n in self.inputs if n in names]
        if not inputs:
            return None
        rng = self.opts.get("_rng")
        if rng is None:
            rng = random.Random(int(os.environ.get("VERIF_SEED", "0") or 0) + 12345)
            self.opts["_rng"] = rng
        unit_pairs = [(a, b) for a, b in self.hints.get("unit", []) if a in names or b in names]
        in_unit = {n for p in unit_pairs for n in p}
        positive = set(self.hints.get("positive", []))
        hv = self.hints.get("values", {})
        for t in range(tries):
            assign = {}
            guided = bool(hv) and t < max(2, (2 * tries) // 3)
            # partial concretisation: now and then leave a few unit vectors symbolic, so that the solver can steer
            # them into a narrow target region while the rest of the system is concrete
            free = set()
            if guided and t >= 1 and len(unit_pairs) > 3 and t % 2 == 0:
                for pr in rng.sample(unit_pairs, min(3, len(unit_pairs))):
                    free.add(pr)
            for a, b in unit_pairs:
                if (a, b) in free:
                    continue
                if float_exact:
                    # unit vectors whose squared norm and mutual dot products are exact in IEEE doubles, so that exact
                    # coincidences (antiparallel, zero component) survive the concrete replay
                    x, y = rng.choice(self.FLOAT_EXACT_UNITS)
                    x, y = Fraction(x) * rng.choice((1, -1)), Fraction(y) * rng.choice((1, -1))
                elif guided and a in hv and b in hv:
                    # rational point on the unit circle close to the hinted direction (exact unit vector)
                    hx, hy = hv[a], hv[b]
                    ang = math.atan2(hy, hx) + (0.0 if t == 0 else rng.uniform(-0.25, 0.25) * (1 + t // 4))
                    ang = (ang + math.pi) % (2 * math.pi) - math.pi
                    if abs(abs(ang) - math.pi) < 1e-6:
                        x, y = Fraction(-1), Fraction(0)
                    else:
                        tt = Fraction(math.tan(ang / 2)).limit_denominator(40)
                        x, y = (1 - tt * tt) / (1 + tt * tt), 2 * tt / (1 + tt * tt)
                else:
                    p, q = rng.randint(-9, 9), rng.randint(1, 7)
                    tt = Fraction(p, q)
                    x, y = (1 - tt * tt) / (1 + tt * tt), 2 * tt / (1 + tt * tt)
                    if rng.random() < 0.5:
                        x = -x
                    if rng.random() < 0.5:
                        x, y = y, x
                assign[a], assign[b] = x, y
            if guided:
                for n in inputs:
                    if n not in in_unit and n in hv and t % 2 == 1:
                        assign[n] = Fraction(hv[n] * (1 + (rng.uniform(-0.2, 0.2) if t > 1 else 0))).limit_denominator(1000)
            elif t >= tries // 2 or not unit_pairs:
                for n in inputs:
                    if n not in in_unit:
                        v = Fraction(rng.randint(-12, 12), rng.randint(1, 4))
                        if n in positive:
                            v = abs(v) + Fraction(1, 4)
                        assign[n] = v
            subs = [(z3.Real(n), z3.RealVal(str(v))) for n, v in assign.items()]
            rest = []
            dead = False
            for c in constraints:
                c2 = z3.simplify(z3.substitute(c, *subs))
                if z3.is_false(c2):
                    dead = True
                    break
                if not z3.is_true(c2):
                    rest.append(c2)
            if dead:
                continue
            r, vals = self._z3_check(rest, per_try_ms * (3 if free else 1), True) if rest else ("sat", {})
            if r == "sat":
                out = dict(vals)
                for n, v in assign.items():
                    out[n] = float(v)
                return out
        return None

    def feasible(self, e, timeout_ms=None):
        """is pc /\\ e satisfiable?  'sat' | 'unsat' | 'unknown' (exact definitions)."""
        e = z3.simplify(e)
        if z3.is_true(e):
            return "sat"
        if z3.is_false(e):
            return "unsat"
        self.stats.fork_queries += 1
        if self.deadline is not None and time.time() > self.deadline:
            raise PathCap("time budget exhausted inside a path")
        cons = self._slice(vars_of(e), 2) + [e]
        if self.opts.get("cheap_forks"):
            # undecided directions are explored (sound: obligations are then proven on a superset of the real paths)
            key = tuple(sorted(c.get_id() for c in cons))
            if key in self.cache:
                self.stats.cache_hits += 1
                return self.cache[key]
            t0 = time.time()
            try:
                r = "unsat" if relaxation_unsat(cons) else "unknown"
            except z3.Z3Exception:
                r = "unknown"
            tmo = self.opts.get("cheap_fork_timeout_ms", 0)
            if r == "unknown" and tmo:
                r, _ = self._z3_check(cons, tmo, False)
            self.stats.solver_s += time.time() - t0
            self.stats.queries[r] += 1
            self.cache[key] = r
            self._keep = getattr(self, "_keep", [])
            self._keep.append(cons)
            return r
        r, _ = self.solve(cons, timeout_ms or self.opts["fork_timeout_ms"])
        if r == "unknown":
            # retry on the abstraction: unsat there is still unsat
            cons = self._slice(vars_of(e), 0) + [e]
            r2, _ = self.solve(cons, timeout_ms or self.opts["fork_timeout_ms"])
            if r2 == "unsat":
                return "unsat"
        return r

    def implied(self, e):
        """pc => e, decided by refutation; False also when unknown."""
        return self.feasible(z3.Not(e)) == "unsat"


CTX = None


def ctx():
    return CTX


# ----------------------------------------------------------------------------------------
def lift(v):
    """python/numpy number or SymReal -> z3 Real term; TypeError otherwise."""
    if isinstance(v, SymReal):
        return v.e
    if isinstance(v, (bool, np.bool_)):
        return z3.RealVal(int(v))
    if isinstance(v, (int, np.integer)):
        return z3.RealVal(int(v))
    if isinstance(v, (float, np.floating)):
        f = float(v)
        if f != f or f in (math.inf, -math.inf):
            raise Inconclusive(f"non-finite constant {f} meets a symbol")
        return z3.RealVal(str(Fraction(f)))
    if isinstance(v, Fraction):
        return z3.RealVal(str(v))
    raise TypeError(type(v))


def as_z3_bool(c):
    if isinstance(c, SymBool):
        return c.e
    if isinstance(c, z3.BoolRef):
        return c
    if isinstance(c, (bool, np.bool_)):
        return z3.BoolVal(bool(c))
    raise TypeError(f"not a condition: {type(c)}")


def _is_num(t):
    return z3.is_rational_value(t)


def _num(t):
    return Fraction(t.numerator_as_long(), t.denominator_as_long())


def _mk(e):
    return SymReal(e)


class SymBool:
    __slots__ = ("e",)

    def __init__(self, e):
        self.e = e

    def __bool__(self):
        c = CTX
        if c is None:
            raise Inconclusive("SymBool outside exploration")
        e = z3.simplify(self.e)
        if z3.is_true(e):
            return True
        if z3.is_false(e):
            return False
        if c.pos < len(c.decisions):
            d = c.decisions[c.pos]
        else:
            rt = c.feasible(e)
            rf = c.feasible(z3.Not(e))
            if rt != "unsat" and rf != "unsat":
                d = (True, True)
            elif rt != "unsat":
                d = (True, False)
            elif rf != "unsat":
                d = (False, False)
            else:
                raise PathAbort("both directions infeasible")
            c.decisions.append(d)
            if len(c.decisions) > c.opts.get("max_depth", 4000):
                raise PathCap("decision depth")
        c.pos += 1
        c.pc.append((e if d[0] else z3.Not(e), False))
        return d[0]

    def _o(self, o):
        return as_z3_bool(o)

    def __and__(self, o):
        return SymBool(z3.And(self.e, self._o(o)))

    __rand__ = __and__

    def __or__(self, o):
        return SymBool(z3.Or(self.e, self._o(o)))

    __ror__ = __or__

    def __invert__(self):
        return SymBool(z3.Not(self.e))

    def __eq__(self, o):
        try:
            return SymBool(self.e == self._o(o))
        except TypeError:
            return NotImplemented

    def __ne__(self, o):
        try:
            return SymBool(self.e != self._o(o))
        except TypeError:
            return NotImplemented

    __hash__ = None

    def __repr__(self):
        return f"SymBool({self.e})"


def _div_terms(a, b):
    c = CTX
    if _is_num(b):
        bv = _num(b)
        if bv == 0:
            raise FloatingPointError("divide by zero encountered (symx)")
        if _is_num(a):
            return z3.RealVal(str(_num(a) / bv))
        return a * z3.RealVal(str(1 / bv))
    memo = c.memo.setdefault("div", {})
    k = (a.get_id(), b.get_id())
    if k in memo:
        return memo[k][0]
    nz = c.memo.setdefault("nonzero", {})
    bid = b.get_id()
    if bid not in nz:
        if c.opts["div_policy"] == "assume":
            nz[bid] = (b, True)
        else:
            nz[bid] = (b, c.feasible(b == 0) == "unsat")
    if not nz[bid][1]:
        if bool(SymBool(b == 0)):
            raise FloatingPointError("divide by zero encountered (symx)")
        # the false branch left Not(b == 0) in the pc: make it soft (encoding rule 1)
        e, _ = c.pc[-1]
        c.pc[-1] = (e, True)
        nz[bid] = (b, True)
    q = c.newvar("q")
    c.add_def(Def(q, "quot", q * b == a))
    memo[k] = (q, a, b)
    return q


class SymReal:
    __slots__ = ("e",)

    def __init__(self, e):
        self.e = e

    # arithmetic --------------------------------------------------------------------
    def _bin(self, o, op, swap=False):
        try:
            b = lift(o)
        except TypeError:
            return NotImplemented
        a = self.e
        if swap:
            a, b = b, a
        return _arith(op, a, b)

    def __add__(s, o): return s._bin(o, "+")
    def __radd__(s, o): return s._bin(o, "+", True)
    def __sub__(s, o): return s._bin(o, "-")
    def __rsub__(s, o): return s._bin(o, "-", True)
    def __mul__(s, o): return s._bin(o, "*")
    def __rmul__(s, o): return s._bin(o, "*", True)
    def __truediv__(s, o): return s._bin(o, "/")
    def __rtruediv__(s, o): return s._bin(o, "/", True)

    def __neg__(s):
        return _arith("-", z3.RealVal(0), s.e)

    def __pos__(s):
        return s

    def __abs__(s):
        return _mk(z3.If(s.e >= 0, s.e, -s.e))

    def __pow__(s, p):
        if isinstance(p, SymReal):
            raise Inconclusive("symbolic exponent")
        if isinstance(p, (int, np.integer)) or (isinstance(p, (float, np.floating)) and float(p).is_integer()):
            p = int(p)
            if p >= 0:
                r = 1
                for _ in range(p):
                    r = r * s
                return r if isinstance(r, SymReal) else _mk(z3.RealVal(r))
            return 1 / (s ** (-p))
        if p == 0.5:
            return s.sqrt()
        if p == 1.5:
            return s * s.sqrt()
        if p == -0.5:
            return 1 / s.sqrt()
        raise Inconclusive(f"pow {p}")

    def sqrt(s):
        c = CTX
        if _is_num(s.e):
            v = _num(s.e)
            r = Fraction(math.isqrt(v.numerator), 1) / Fraction(math.isqrt(v.denominator), 1) if v >= 0 else None
            if r is not None and r * r == v:
                return _mk(z3.RealVal(str(r)))
        memo = c.memo.setdefault("sqrt", {})
        key = z3.simplify(s.e, som=True, sort_sums=True)
        k = key.sexpr()
        if k in memo:
            return memo[k]
        if c.opts["div_policy"] == "assume":
            pos = True
        else:
            pos = c.feasible(s.e <= 0) == "unsat"
            if not pos and c.feasible(s.e < 0) != "unsat":
                if bool(SymBool(s.e < 0)):
                    raise FloatingPointError("invalid value encountered in sqrt (symx)")
        v = c.newvar("r")
        c.add_def(Def(v, "sqrt", z3.And(v >= 0, v * v == s.e), (v > 0) if pos else (v >= 0)))
        if pos:
            c.memo.setdefault("nonzero", {})[v.get_id()] = (v, True)
        memo[k] = _mk(v)
        return memo[k]

    def arccos(s):
        return SymAngle(s)

    def rint(s):
        return s.__round__(0)

    def conjugate(s):
        return s

    def __round__(s, k=0):
        c = CTX
        k = int(k or 0)
        if c.opts.get("round_identity"):
            return s            # harness assumption: the value already lies on the 10^-k grid
        if _is_num(s.e):
            v = _num(s.e)
            return _mk(z3.RealVal(str(Fraction(round(float(v), k)))))
        memo = c.memo.setdefault("round", {})
        key = (s.e.get_id(), k)
        if key in memo:
            return memo[key][0]
        d = c.newvar("rd")
        h = z3.RealVal(str(Fraction(1, 2 * 10 ** k)))
        c.add_def(Def(d, "round", z3.And(d >= -h, d <= h)))
        r = _mk(s.e + d)
        memo[key] = (r, s.e)
        return r

    # comparisons -------------------------------------------------------------------
    def _cmp(s, o, f):
        if isinstance(o, (float, np.floating)) and (o == math.inf or o == -math.inf):
            return bool(f(0.0, float(o)))       # every real compares with +-inf like 0 does
        try:
            b = lift(o)
        except TypeError:
            return NotImplemented
        return SymBool(f(s.e, b))

    def __lt__(s, o): return s._cmp(o, lambda a, b: a < b)
    def __le__(s, o): return s._cmp(o, lambda a, b: a <= b)
    def __gt__(s, o): return s._cmp(o, lambda a, b: a > b)
    def __ge__(s, o): return s._cmp(o, lambda a, b: a >= b)

    def __eq__(s, o):
        try:
            return SymBool(s.e == lift(o))
        except TypeError:
            return False

    def __ne__(s, o):
        try:
            return SymBool(s.e != lift(o))
        except TypeError:
            return True

    __hash__ = None

    def __bool__(s):
        return bool(SymBool(s.e != 0))

    def __float__(s):
        raise Inconclusive("float() of a symbolic value")

    def __int__(s):
        raise Inconclusive("int() of a symbolic value")

    def __index__(s):
        raise Inconclusive("symbolic value used as an index")

    def __repr__(s):
        t = str(s.e)
        return f"Sym({t if len(t) < 80 else t[:77] + '...'})"


def _arith(op, a, b):
    an, bn = _is_num(a), _is_num(b)
    if an and bn:
        x, y = _num(a), _num(b)
        if op == "+": r = x + y
        elif op == "-": r = x - y
        elif op == "*": r = x * y
        else:
            if y == 0:
                raise FloatingPointError("divide by zero encountered (symx)")
            r = x / y
        return _mk(z3.RealVal(str(r)))
    if op == "+":
        if an and _num(a) == 0: return _mk(b)
        if bn and _num(b) == 0: return _mk(a)
        return _mk(a + b)
    if op == "-":
        if bn and _num(b) == 0: return _mk(a)
        if an and _num(a) == 0: return _mk(-b)
        return _mk(a - b)
    if op == "*":
        if an:
            x = _num(a)
            if x == 0: return _mk(z3.RealVal(0))
            if x == 1: return _mk(b)
        if bn:
            y = _num(b)
            if y == 0: return _mk(z3.RealVal(0))
            if y == 1: return _mk(a)
        return _mk(a * b)
    if op == "/":
        if an and _num(a) == 0 and False:
            return _mk(z3.RealVal(0))
        return _mk(_div_terms(a, b))
    raise AssertionError(op)


class SymAngle:
    """arccos(c), c in [-1, 1]; only order comparisons are modelled (arccos strictly decreasing)."""

    def __init__(self, c):
        self.c = c

    @staticmethod
    def _limit(o):
        o = float(o)
        return o

    def __ge__(self, o):
        if isinstance(o, SymAngle):
            return self.c <= o.c
        o = float(o)
        if o > math.pi:
            return False
        if o == math.pi:
            return self.c <= -1
        if o <= 0:
            return True
        return self.c <= Fraction(math.cos(o))

    def __gt__(self, o):
        if isinstance(o, SymAngle):
            return self.c < o.c
        o = float(o)
        if o >= math.pi:
            return False
        if o < 0:
            return True
        return self.c < Fraction(math.cos(o))

    def __lt__(self, o):
        r = self.__ge__(o)
        return (not r) if isinstance(r, bool) else ~r

    def __le__(self, o):
        r = self.__gt__(o)
        return (not r) if isinstance(r, bool) else ~r

    def __eq__(self, o):
        if isinstance(o, SymAngle):
            return self.c == o.c
        return NotImplemented

    __hash__ = None


def is_sym(x):
    return isinstance(x, (SymReal, SymBool, SymAngle))


def has_sym(a):
    """does array-like a contain a symbolic element?"""
    if isinstance(a, (SymReal, SymBool)):
        return True
    if isinstance(a, np.ndarray):
        if a.dtype != object:
            return False
        return any(isinstance(x, (SymReal, SymBool)) for x in a.flat)
    if isinstance(a, (list, tuple)):
        return any(has_sym(x) for x in a)
    return False


def sval(x):
    """z3 term of a SymReal or number."""
    return lift(x)


# ----------------------------------------------------------------------------------------
# exploration

class PathResult:
    def __init__(self):
        self.pc = None
        self.defs = None
        self.value = None
        self.error = None
        self.ctx = None


def explore(fn, opts=None, max_paths=2000, deadline=None, on_path=None):
    """Run fn() under every feasible decision schedule.  on_path(ctx, value) is called at the end of
    each path *while the context is still active* (so it can issue final queries)."""
    global CTX
    stats = Stats()
    cache = {}
    schedule = []
    while True:
        c = Ctx(opts)
        c.stats = stats
        c.cache = cache
        c.deadline = deadline
        c.decisions = list(schedule)
        CTX = c
        aborted = False
        try:
            value = fn()
            stats.paths += 1
            if on_path is not None:
                on_path(c, value)
        except PathAbort:
            stats.infeasible_paths += 1
            aborted = True
        finally:
            CTX = None
        d = c.decisions
        while d and not d[-1][1]:
            d.pop()
        if not d:
            break
        last = d.pop()
        d.append((not last[0], False))
        schedule = d
        if stats.paths + stats.infeasible_paths >= max_paths:
            raise PathCap(f"path cap {max_paths}")
        if deadline is not None and time.time() > deadline:
            raise PathCap("time budget for exploration exhausted")
    return stats


# ----------------------------------------------------------------------------------------
# final queries

def model_value(m, v):
    x = m.eval(v, model_completion=True)
    if z3.is_rational_value(x):
        return float(Fraction(x.numerator_as_long(), x.denominator_as_long()))
    if z3.is_algebraic_value(x):
        s = x.as_decimal(40).rstrip("?")
        return float(s)
    raise Inconclusive(f"cannot concretise {x}")


def model_values(m):
    out = {}
    for dcl in m.decls():
        if dcl.arity() == 0 and z3.is_real(dcl()):
            try:
                out[dcl.name()] = model_value(m, dcl())
            except Inconclusive:
                return None
    return out


def decide(c, claim, extra=None):
    """Is `claim` implied on the current path?  Returns (verdict, model|None, level, seconds).
    verdict: 'unsat' (holds), 'sat' (counterexample, exact definitions), 'unknown'."""
    claim = as_z3_bool(claim)
    neg = z3.simplify(z3.Not(claim))
    if z3.is_false(neg):
        return "unsat", None, -1, 0.0
    extra = [as_z3_bool(x) for x in (extra or [])]
    t0 = time.time()
    c.stats.final_queries += 1
    seeds = set(vars_of(neg))
    for x in extra:
        seeds |= vars_of(x)
    tmo = c.opts["final_timeout_ms"]
    has_soft = any(soft for _, soft in c.pc)
    has_abs = any(d.exact is not d.abstract for d in c.defs)
    levels = [0]
    if has_soft:
        levels.append(1)
    if has_abs:
        levels.append(2)
    if len(levels) > 1 and c.opts.get("relax", True):
        # cheap first shot: linear relaxation of the exact level
        try:
            cons0 = c._slice(seeds, levels[-1]) + extra + [neg]
            if relaxation_unsat(cons0):
                c.stats.relaxed_unsat = getattr(c.stats, "relaxed_unsat", 0) + 1
                c.stats.queries["unsat"] += 1
                if c.opts.get("cross_check"):
                    cross_check_unsat(c, cons0)
                return "unsat", None, levels[-1], time.time() - t0
        except z3.Z3Exception:
            pass
    for level in levels:
        final = level == levels[-1]
        cons = c._slice(seeds, level) + extra + [neg]
        r, m = c.solve(cons, tmo, want_model=True)
        if r == "unsat":
            if c.opts.get("cross_check"):
                cross_check_unsat(c, cons)
            return "unsat", None, level, time.time() - t0
        if final:
            return r, m, level, time.time() - t0
    raise AssertionError


def cross_check_unsat(c, cons):
    """second opinion on an `unsat` verdict: the same query, exported as SMT-LIB2, decided by the cvc5 binary (QF_NRA / with
    ite, 20 s cap).  cvc5 `unsat` = agreement, `sat` = disagreement (recorded; the driver turns it into exit 2),
    timeout / unknown / unsupported = recorded, not counted as agreement."""
    import subprocess
    import tempfile
    st = c.stats
    cc = st.__dict__.setdefault("cross", dict(agree=0, disagree=0, undecided=0, seconds=0.0))
    if cc["agree"] + cc["disagree"] + cc["undecided"] >= c.opts.get("cross_check_max", 40):
        return
    s = z3.Solver()
    s.add(*cons)
    t0 = time.time()
    try:
        with tempfile.NamedTemporaryFile("w", suffix=".smt2", delete=False) as f:
            f.write("(set-logic ALL)\n" + s.to_smt2())
            name = f.name
        out = subprocess.run(["cvc5", "--tlimit=20000", name], capture_output=True, text=True, timeout=40).stdout.strip().splitlines()
        first = out[0].strip() if out else "?"
    except Exception:  # noqa
        first = "?"
    finally:
        try:
            os.remove(name)
        except Exception:  # noqa
            pass
    cc["seconds"] += time.time() - t0
    if first == "unsat":
        cc["agree"] += 1
    elif first == "sat":
        cc["disagree"] += 1
    else:
        cc["undecided"] += 1


def full_model(c, extra, known=None, timeout_ms=None):
    """Model of the whole exact path condition + extra constraints, solved cluster by cluster.
    Returns (status, values): status 'sat' | 'unsat' (some cluster infeasible) | 'unknown'."""
    cons = [(e, vars_of(e)) for e, _ in c.pc] + [(d.exact, d.vars) for d in c.defs] + \
           [(e, vars_of(e)) for e in extra]
    for e, vs in cons:
        if not vs:
            se = z3.simplify(e)
            if z3.is_false(se):
                return "unsat", None
    parent = {}

    def find(x):
        while parent.setdefault(x, x) != x:
            parent[x] = parent[parent[x]]
            x = parent[x]
        return x

    for _, vs in cons:
        vs = list(vs)
        for v in vs[1:]:
            ra, rb = find(vs[0]), find(v)
            if ra != rb:
                parent[ra] = rb
    clusters = {}
    for e, vs in cons:
        if not vs:
            continue
        clusters.setdefault(find(next(iter(vs))), []).append(e)
    values = {}
    status = "sat"
    if known:
        values.update(known)
    for root, es in clusters.items():
        if known:
            cv = set()
            for e in es:
                cv |= vars_of(e)
            if cv & set(known):
                continue        # this cluster is the slice the caller already has a model of
        r, m = c.solve(es, timeout_ms or c.opts["final_timeout_ms"], want_model=True)
        if r == "unsat":
            return "unsat", None
        if r != "sat":
            status = "unknown"
            continue
        values.update(m)
    return status, (values if status == "sat" else None)
