"""C16 -- angle-limit exclusion drops exactly the flagged interfaces and solves the rest.

Real ForceMatrix.get_angle_limited_edges / _build_matrix / solve / get_solution_no_discarded / get_new_initial_condition,
ForSys.build_force_matrix (default limit) on catalogue tissues with symbolic unit tangents; arccos comparisons are
translated exactly through the monotonicity of arccos (SymAngle)."""
import math

import numpy as np

from symx.runner import Job
from symx.harness import Ob
from symx import stubs, tissue
from harness.solving import VelocityStub, build_case, solve, last

PROPERTY = "C16"

META = dict(
    explanation="Every tangent is a symbolic unit vector; the limit is an exact double; `arccos(u.v) >= limit` is decided as "
                "`u.v <= cos(limit)`.",
    bounds=dict(tissues="T3, K3 (K4 thorough)", limits="0.5pi, 2pi/3, 0.9pi, pi (ForSys default), inf (dataclass default)",
                modes="static, velocity (arbitrary rhs)", backends="default, lsq with symbolic initial condition"),
    outside=["tissues beyond the catalogue", "cos(limit) is the double nearest to the true cosine (1 ulp)"],
    assumptions=["tangent stub contract (C02-A)", "back-end contracts as in C05", "general position for tangent components (soft)"],
    trusted=["z3"],
)

LIMITS = {"half": 0.5 * math.pi, "2third": 2 * math.pi / 3, "0.9": 0.9 * math.pi, "pi": math.pi, "inf": math.inf, "default": None}


def _cos(limit):
    from fractions import Fraction
    return Fraction(math.cos(limit))


def exclusion(env, topo, limit, mode, method, pre_limit=None):
    c = build_case(env, topo)
    spec, b = c.spec, c.built
    internal = c.internal
    lim = LIMITS[limit]
    # soft general position: components non-zero (C02's finding is not the subject here)
    ends = set()
    for ln in internal:
        ends.add(spec.lines[ln][0])
        ends.add(spec.lines[ln][-1])
    for pn in ends:
        for ln in spec.lines_at(pn):
            u = c.vs.u(ln, pn)
            env.assume(u[0] != 0, soft=True)
            env.assume(u[1] != 0, soft=True)
    vel = VelocityStub(env, b) if mode == "velocity" else None
    kw = dict(allow_negatives=False)
    if vel is not None:
        kw["b_matrix"] = "velocity"
    x0 = None
    if method == "lsq":
        kw["method"] = "lsq"
        x0 = [env.real(f"x0_{i}") for i in range(len(internal))]
        for v in x0:
            env.assume(v > 0)
        kw["initial_condition"] = list(x0)
    build_kw = {} if lim is None else dict(angle_limit=lim)
    err, warns = solve(c, velocity=vel, build_kw=build_kw,
                       pre_build_kw=None if pre_limit is None else dict(angle_limit=LIMITS[pre_limit]), **kw)
    c.vs.restore()
    obs = [Ob("solve-does-not-raise", err is None, note=f"{type(err).__name__}: {err}" if err else None)]
    if err is not None:
        return obs
    fm, fr = c.fm, c.frame
    eff = math.inf if lim is None else lim      # the property: with the default limit nothing is excluded
    # ---- oracle from the description: flagged vertices, excluded interfaces
    def flagged(pn):
        us = [c.vs.u(ln, pn) for ln in spec.lines_at(pn)]
        conds = []
        for i in range(len(us)):
            for j in range(i + 1, len(us)):
                d = us[i][0] * us[j][0] + us[i][1] * us[j][1]
                if eff > math.pi:
                    conds.append(False)
                elif eff == math.pi:
                    conds.append(d <= -1)
                else:
                    conds.append(d <= _cos(eff))
        return env.disj(conds)
    fl = {pn: flagged(pn) for pn in ends}

    def fl_pi(pn):
        us = [c.vs.u(ln, pn) for ln in spec.lines_at(pn)]
        return env.disj([us[i][0] * us[j][0] + us[i][1] * us[j][1] <= -1
                         for i in range(len(us)) for j in range(i + 1, len(us))])
    excl = {ln: fl[spec.lines[ln][0]] & fl[spec.lines[ln][-1]] for ln in internal}
    order = [tissue.line_of_big_edge(b, be.get_vertices_ids())[0] for be in fr.internal_big_edges]
    used = [tissue.line_of_big_edge(b, e)[0] for e in fm.big_edges_to_use]
    # O1: on this path the code made concrete decisions; they must be the oracle's
    o1 = env.true()
    for pn in ends:
        in_del = b.vid_of[pn] in fm.deletes
        o1 = o1 & (fl[pn] if in_del else env.neg(fl[pn]))
    obs.append(Ob("flagged-junctions-are-exactly-those-opening-at-least-the-limit", o1))
    o1b = env.true()
    for ln in order:
        o1b = o1b & (env.neg(excl[ln]) if ln in used else excl[ln])
    obs.append(Ob("excluded-iff-both-end-junctions-flagged", o1b & (used == [ln for ln in order if ln in used])))
    if lim is None or lim > math.pi:
        obs.append(Ob("default-limit-excludes-nothing", used == order, finding="default_limit_excludes_straight_through",
                      region=env.disj([fl_pi(spec.lines[ln][0]) & fl_pi(spec.lines[ln][-1]) for ln in internal])))
    # O2: reported vector
    src = last("nnls") or last("inv") or last("lmfit")
    if method == "lsq" and last("nnls") is None:
        src = last("lmfit")
    x = list(src["x"])
    forces = fr.forces
    o2 = env.true() & (len(forces) == len(order))
    k = 0
    for i, ln in enumerate(order):
        if ln in used:
            o2 = o2 & env.eq(forces[i], x[k])
            k += 1
        else:
            o2 = o2 & env.eq(forces[i], -1)
    obs.append(Ob("minus-one-at-excluded-positions-kth-remaining-holds-kth-solution", o2))
    # the solved system is the augmented system of the remaining interfaces only
    if src is not last("lmfit"):
        A = np.asarray(src["A"], dtype=object)
        M = c.M
        m, n = M.shape
        ok = env.true() & (n == len(used)) & (A.shape == (m + 1, n + 1))
        rows = {b.point_of[v]: r for v, r in fm.map_vid_to_row.items()}
        if A.shape == (m + 1, n + 1):
            for pn, r0 in rows.items():
                for ci, ln in enumerate(used):
                    if ln in spec.lines_at(pn):
                        u = c.vs.u(ln, pn)
                        ok = ok & env.eq(A[r0, ci], u[0]) & env.eq(A[r0 + 1, ci], u[1])
                    else:
                        ok = ok & env.eq(A[r0, ci], 0) & env.eq(A[r0 + 1, ci], 0)
            for ci in range(n):
                ok = ok & env.eq(A[m, ci], 1)
            ok = ok & env.eq(src["b"][m], n)
        need = [pn for pn in spec.used_junctions() if sum(1 for ln in spec.lines_at(pn) if ln in used) >= 3]
        ok = ok & (sorted(rows) == sorted(need))
        obs.append(Ob("solved-system-is-that-of-the-remaining-interfaces", ok))
    if method == "lsq":
        obs.append(Ob("lsq-answer-comes-from-a-back-end-for-the-restricted-system", len(x) == len(used) + 1))
    return obs


def jobs(tier):
    js = []
    quick = tier == "quick"
    # an earlier build with a finite limit must not leak into a later default build; four-fold junctions are flagged too
    js.append(Job("T3-default-after-a-build-with-limit-2third", "c16:exclusion", dict(topo="T3", limit="default", mode="static", method=None, pre_limit="2third"),
                  budget_s=1500, max_paths=6000, opts=dict(cheap_forks=True), weight=2))
    js.append(Job("T4-limit=2third-static-default", "c16:exclusion", dict(topo="T4", limit="2third", mode="static", method=None),
                  budget_s=1500, max_paths=6000, opts=dict(cheap_forks=True), weight=3))
    for topo in (("T3", "K3") if quick else ("T3", "K3", "K4")):
        for limit in (("2third", "default", "inf") if quick else tuple(LIMITS)):
            for mode in (("static",) if quick else ("static", "velocity")):
                for method in (None, "lsq"):
                    if quick and topo == "K3" and (method or limit == "inf"):
                        continue
                    if topo == "K4" and (method or mode == "velocity" or limit not in ("2third", "default")):
                        continue
                    js.append(Job(f"{topo}-limit={limit}-{mode}-{method or 'default'}", "c16:exclusion",
                                  dict(topo=topo, limit=limit, mode=mode, method=method), budget_s=1500, max_paths=6000,
                                  opts=dict(cheap_forks=True), weight=10 if topo != "T3" else 1))
    return js
