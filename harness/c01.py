"""C01 -- static inference recovers the tensions of any tissue in force balance.

Decided as a chain (DESIGN.md section 3/C01); every link is a solver query on the real code:
  O1  coefficients are the true unit tangents            -> C02-A (re-run here for the finding regions) and C02-B
  O2  truth solves the system handed to the back-end, and the back-end's answer *is* the truth:
        - exact-inversion path: A x = b and regularity instantiated at x - truth  =>  x = truth
        - fallback / lsq_linear: KKT point of a consistent convex problem has zero residual (proved by z3 through the
          lemma chain of harness.solving.kkt_zero_residual), then uniqueness instantiated at x - truth
  O3  write-back                                        -> also asserted here on the reported values
  O4  resampling keeps interfaces exact arc samples      -> C11
"""
import numpy as np

from symx.runner import Job
from symx.harness import Ob
from symx import stubs
from harness import c02
from harness.solving import build_case, solve, last, kkt_zero_residual

PROPERTY = "C01"

META = dict(
    explanation="Equilibrium = symbolic positive tensions T with sum_e T_e u(e,j) = 0 at every used junction; tangents u are symbolic "
                "unit vectors (their correctness is C02's obligation, re-run here on 3-point arcs).  The reported values are compared "
                "with E*T/sum(T) for every such configuration.",
    bounds=dict(tissues="T3 (3x4 rectangular: fallback), K3-n0, K3 (7x7 square: inversion path), K4 thorough", methods="default, lsq_linear, lsq",
                arcs="3 points per interface for the tangent link (C02 covers up to 9)"),
    outside=["numerical tolerance of the back-ends", "exactly collinear >= 3-point interfaces (MINPACK)", "tissues beyond the catalogue",
             "mesh resampling leg: see C11 (kept points are a subsequence including both ends)"],
    assumptions=["uniqueness hypothesis of the property, used as: the augmented system has no non-trivial null vector (instantiated at "
                 "reported - truth); this is slightly stronger than 'unique up to scale' and means the check claims less",
                 "nnls / lsq_linear / lmfit return a KKT point", "inverse: A x = b", "tangent stub contract (C02-A)"],
    trusted=["z3"],
)


def recover(env, topo, method, inv_outcomes="both"):
    stubs.OPTS["inv_outcomes"] = inv_outcomes
    c = build_case(env, topo)
    spec = c.spec
    internal = c.internal
    T = {ln: env.real(f"T_{ln}") for ln in internal}
    for ln in internal:
        env.assume(T[ln] > 0)
        env.hint_positive(f"T_{ln}")
        env.hint_value(f"T_{ln}", 1.0)
    used = spec.used_junctions()
    for pn in used:
        fx, fy = 0, 0
        for ln in spec.lines_at(pn):
            if ln in internal:
                u = c.vs.u(ln, pn)
                fx = fx + T[ln] * u[0]
                fy = fy + T[ln] * u[1]
                env.assume(u[0] != 0, soft=True)
                env.assume(u[1] != 0, soft=True)
        env.assume(env.eq(fx, 0))
        env.assume(env.eq(fy, 0))
    kw = dict(allow_negatives=False)
    if method:
        kw["method"] = method
    err, warns = solve(c, build_kw=dict(angle_limit=np.inf), **kw)
    c.vs.restore()
    obs = [Ob("solve-does-not-raise", err is None, note=f"{type(err).__name__}: {err}" if err else None)]
    if err is not None:
        return obs
    n = len(c.cols)
    E = n
    S = sum((T[ln] for ln in c.cols[1:]), T[c.cols[0]])
    forces = c.frame.forces
    inv, nn, ll, lm = last("inv"), last("nnls"), last("lsq_linear"), last("lmfit")
    if method == "lsq_linear":
        src = ll
    elif method == "lsq":
        src = nn if nn is not None else lm
    else:
        src = nn if nn is not None else inv
    if src is lm and lm is not None:
        A, b = np.asarray(lm["args"][0], dtype=object), list(np.asarray(lm["args"][1], dtype=object).reshape(-1))
    else:
        A, b = np.asarray(src["A"], dtype=object), list(src["b"])
    x = list(src["x"])
    # Normalisation: scaling an equilibrium tension vector by a positive factor gives an equilibrium vector with the same
    # T/mean(T), so it is enough to quantify over those with sum(T) = E; then the truth is z = (T, 0).
    env.assume(env.eq(S, E))
    z = [T[ln] for ln in c.cols] + [0]
    truth_ok = env.true()
    for i in range(A.shape[0]):
        lhs = sum((A[i, j] * z[j] for j in range(1, n + 1)), A[i, 0] * z[0])
        truth_ok = truth_ok & env.eq(lhs, b[i])
    lemmas = []
    if method == "lsq_linear" and env.mode == "sym":
        # the bordered *normal* system: (M^T M T)_i = sum_k M_ki (M T)_k, each factor (M T)_k is zero by equilibrium
        M = c.M
        for k in range(M.shape[0]):
            mt = sum((M[k, j] * z[j] for j in range(1, n)), M[k, 0] * z[0])
            for i in range(n):
                lemmas += [M[k, i] * mt <= 0, M[k, i] * mt >= 0]
    if "r" in src:
        if src is lm:
            src = dict(src)
        lemmas += kkt_zero_residual(env, src, z)
    obs.append(Ob("truth-solves-the-system-handed-to-the-back-end", truth_ok, lemmas=list(lemmas[:2 * c.M.shape[0] * n] if method == "lsq_linear" else [])))
    # uniqueness hypothesis, instantiated at (x - z)
    if env.mode == "sym":
        diff = [x[j] - z[j] for j in range(n + 1)]
        Az = env.conj([env.eq(sum((A[i, j] * diff[j] for j in range(1, n + 1)), A[i, 0] * diff[0]), 0) for i in range(A.shape[0])])
        env.assume(env.implies(Az, env.conj([env.eq(d, 0) for d in diff])))
    rec = env.true() & (len(forces) == n)
    for j, ln in enumerate(c.cols):
        rec = rec & env.eq(forces[j], T[ln], tol=1e-5)
    obs.append(Ob("reported-is-true-tension-over-mean-true-tension", rec, lemmas=lemmas))
    # write-back (C10-O1) on the reported values
    wb = env.true()
    for j, be in enumerate(c.frame.internal_big_edges):
        wb = wb & env.eq(be.tension, forces[j])
    obs.append(Ob("tensions-written-back-to-their-interfaces", wb))
    return obs


def jobs(tier):
    js = []
    quick = tier == "quick"
    for topo in (("T3", "K3-n0") if quick else ("T3", "K3-n0", "K3", "K4")):
        for method in (None, "lsq_linear", "lsq"):
            if topo in ("K3", "K4") and method == "lsq_linear":
                continue        # bordered normal system of a 6-column matrix: polynomial blow-up, outside the bound
            if topo == "K4" and method:
                continue
            if quick and topo == "K3-n0" and method:
                continue
            js.append(Job(f"recover-{topo}-{method or 'default'}", "c01:recover", dict(topo=topo, method=method),
                          budget_s=2400, max_paths=400, weight=10 if topo != "T3" else 2,
                          opts=dict(final_timeout_ms=60000, cheap_forks=topo != "T3")))
    if quick:
        # square augmented system (exact-inversion path); the singular outcome of the inverse is left to the thorough tier
        js.append(Job("recover-K3-default-regular-inverse", "c01:recover", dict(topo="K3", method=None, inv_outcomes="regular"),
                      budget_s=1500, max_paths=400, weight=10, opts=dict(final_timeout_ms=60000, cheap_forks=True)))
    # O1 link, re-run for the regions in which the tangent itself is wrong (known findings are printed under C01 too)
    for ccw in (True, False):
        for end in ("first", "last"):
            for fit in ("dlite", "taubinSVD"):
                js.append(Job(f"tangent-n3-{'ccw' if ccw else 'cw'}-{end}-{fit}", "c02:tangent",
                              dict(n=3, ccw=ccw, end=end, fit=fit), budget_s=300))
    js.append(Job("two-point-dlite", "c02:two_point", dict(fit="dlite"), budget_s=300))
    return js
