#!/usr/bin/env python3
"""Regenerates MANIFEST.json from the table below (keeps the file valid and consistent)."""
import json, os
V = os.path.dirname(os.path.abspath(__file__))
CLAIMED = {
 "C20": dict(text="Bounded symbolic execution (symx) of the real Cell methods on polygons with 3..8 symbolic vertices; every identity / sign / navigation obligation is decided by z3 on every path, so it holds for all real coordinates inside the bound, not for samples.",
             note="Floats as reals; polygons up to 8 vertices; star-shaped polygons for the sign convention; scipy leastsq (cell centre, unused here) stubbed.",
             ref="3/C20"),
}
NA = {
 "C08": "purely topological statement over object graphs; no symbolic dimension survives realisation into Vertex/Cell objects (DESIGN.md section 5)",
 "C09": "heap back-reference invariant over parsers, editing histories and GC-driven destructors; outside solver reach (DESIGN.md section 5)",
 "C14": "quantifier over text file layouts; file I/O, regex, float(text), pandas cannot be given symbolic input within reach (DESIGN.md section 5)",
 "C15": "raster input through OpenCV's C++ contour tracer; nothing symbolic can pass (DESIGN.md section 5)",
}
PENDING = {}
def main():
    props = [json.loads(l) for l in open(os.path.join(V, "properties.jsonl"))]
    checks = []
    for p in props:
        pid = p["id"]
        if pid in CLAIMED:
            c = CLAIMED[pid]
            checks.append(dict(property_id=pid, quick_cmd=f"bin/check {pid} --tier quick", thorough_cmd=f"bin/check {pid} --tier thorough",
                               evidence_file=f"/verif/evidence/{pid}.json", replay_cmd_template="bin/replay {path}", engine="symx",
                               level_claimed=dict(category="other", text=c["text"], design_ref=c["ref"]), level_note=c["note"],
                               technique=c.get("technique", "bounded symbolic execution of the real Python code + SMT (z3, nonlinear real arithmetic)")))
    na = [dict(property_id=k, reason=v) for k, v in NA.items()]
    for p in props:
        if p["id"] not in CLAIMED and p["id"] not in NA:
            na.append(dict(property_id=p["id"], reason=PENDING.get(p["id"], "check not built yet in this revision (planned, see DESIGN.md section 3)")))
    m = dict(version=1, setup_cmd="bin/setup",
             hooks=dict(guard="FORSYS_VERIF", enable="no source hooks: quantities are captured at the library stubs; checks set FORSYS_VERIF=1 for uniformity",
                        baseline_off_cmd="cd /repo && /venv/bin/python -m pytest -ra -q -p no:cacheprovider --timeout=900 --continue-on-collection-errors",
                        source_commits=[], add_only=True),
             engines=[dict(name="symx", path="symx/", serves_properties=sorted(CLAIMED), kind_free_text="dynamic symbolic executor over the reals (z3 proxies through numpy object arrays) with library contract stubs and concrete replay"),],
             checks=checks, not_applicable=sorted(na, key=lambda x: x["property_id"]),
             notes="Exit codes: 0 held, 1 VIOLATION (reproduced counterexample), 2 inconclusive/harness error. See DESIGN.md.")
    json.dump(m, open(os.path.join(V, "MANIFEST.json"), "w"), indent=1)
if __name__ == "__main__":
    main()
