"""C03 -- dynamic inference recovers tensions from junction velocities.

O1  each used junction's velocity lands in that junction's own two rows                      -> C13 (re-run here, small)
O2  series in which every used junction's displacement to the neighbouring frame equals (resultant of the tensions pulling on
    it) x (elapsed time): the real solve_stress(when=t, b_matrix='velocity') hands the back-end a system that the true
    tensions solve up to the 3-decimal rounding of the velocity term (|residual| <= 5e-4 per junction row, sum row exact), and
    reports the back-end's values.  Frames numbered independently, unequal symbolic time steps, first / middle / last frame.
Trusted: the back-end returns the minimiser; 'returns those tensions within the rounding tolerance' additionally needs the
uniqueness discussed under C01 (and is subject to the same multiplier-column finding).
"""
import numpy as np

from symx.runner import Job
from symx.harness import Ob
from symx import stubs, tissue
from harness import c13
from harness.common import catalogue, VersorStub
from harness.solving import last

PROPERTY = "C03"

META = dict(
    explanation="Positions of the neighbouring frame are *defined* as position + elapsed time x sum_e T_e u(e, j) with symbolic "
                "tensions, tangents and time stamps; the captured right-hand side is compared with that resultant.",
    bounds=dict(series="3 frames, inference at frame 0, 1, 2; 2 frames, inference at both", tissues="T3 (K4-n0 with two used junctions thorough)",
                methods="default, lsq; lsq_linear structure only (C05)", renumbering="identity / reversal / gaps / derangement per frame"),
    outside=["4- and 5-frame series", "tracking search (C12): correspondence given through initial_guess",
             "conditioning of the system (how far the minimiser moves under the 5e-4 perturbation)"],
    assumptions=["back-end contracts as in C05", "tangent stub contract (C02-A)", "round(x,3) = x + d, |d| <= 5e-4"],
    trusted=["z3"],
)


def consistent(env, topo, perms, t, method, nframes=3):
    import forsys as fs
    spec0 = catalogue(topo, n_spoke=2, n_border=2)
    internal = spec0.internal_lines()
    used = spec0.used_junctions()
    other = t + 1 if t < nframes - 1 else t - 1
    ends = set()
    for ln, pts in spec0.lines.items():
        ends.add(pts[0])
        ends.add(pts[-1])
    times = [env.real(f"t{k}") for k in range(nframes)]
    for k in range(nframes - 1):
        env.assume(times[k] < times[k + 1])
        env.hint_value(f"t{k}", float(k))
    env.hint_value(f"t{nframes - 1}", float(nframes - 1))
    T = {ln: env.real(f"T_{ln}") for ln in internal}
    for ln in internal:
        env.assume(T[ln] > 0)
        env.hint_positive(f"T_{ln}")
        env.hint_value(f"T_{ln}", 1.0)
    env.assume(env.eq(sum(list(T.values())[1:], list(T.values())[0]), len(internal)))

    def U(ln, pn):
        return env.real(f"u{t}_{ln}_{pn}_x"), env.real(f"u{t}_{ln}_{pn}_y")
    resultant = {}
    for pn in used:
        fx, fy = 0, 0
        for ln in spec0.lines_at(pn):
            if ln in internal:
                ux, uy = U(ln, pn)
                fx, fy = fx + T[ln] * ux, fy + T[ln] * uy
        resultant[pn] = (fx, fy)
    pos, builts, frames = {}, {}, {}
    n = len(spec0.points)
    for k in range(nframes):
        coords = {}
        for pn in spec0.points:
            if pn in ends:
                if k == other and pn in used:
                    continue
                coords[pn] = (env.real(f"x{k}_{pn}"), env.real(f"y{k}_{pn}"))
                env.hint_value(f"x{k}_{pn}", spec0.points[pn][0] + 0.01 * k)
                env.hint_value(f"y{k}_{pn}", spec0.points[pn][1] - 0.01 * k)
            else:
                coords[pn] = spec0.points[pn]
        pos[k] = coords
    dt = times[other] - times[t]
    for pn in used:
        pos[other][pn] = (pos[t][pn][0] + dt * resultant[pn][0], pos[t][pn][1] + dt * resultant[pn][1])
    for k in range(nframes):
        b = tissue.build(spec0.copy(), fs, coords=pos[k], vid=c13.PERMS[perms[k]](n))
        builts[k] = b
        frames[k] = fs.frames.Frame(k, b.vertices, b.edges, b.cells, time=times[k])
    guess = {k: {builts[k].vid_of[pn]: builts[k + 1].vid_of[pn] for pn in ends} for k in range(nframes - 1)}
    guess[nframes - 1] = {}
    F = fs.ForSys(frames, cm=False, initial_guess=guess)
    if any(m is None for m in F.mesh.mapping.values()):
        return []
    vs = VersorStub(env, fs, builts)
    for pn in used:
        for ln in spec0.lines_at(pn):
            u = vs.u(ln, pn, t)
            env.assume(u[0] != 0, soft=True)
            env.assume(u[1] != 0, soft=True)
    import warnings
    err = None
    try:
        with warnings.catch_warnings():
            warnings.simplefilter("ignore")
            F.build_force_matrix(when=t)
            kw = dict(b_matrix="velocity", allow_negatives=False)
            if method:
                kw["method"] = method
            F.solve_stress(when=t, **kw)
    except (ValueError, TypeError, IndexError, KeyError, FloatingPointError) as e:
        err = e
    finally:
        vs.restore()
    obs = [Ob("solve-does-not-raise", err is None, note=f"{type(err).__name__}: {err}" if err else None)]
    if err is not None:
        return obs
    fm = F.force_matrices[t]
    cols = [tissue.line_of_big_edge(builts[t], e)[0] for e in fm.big_edges_to_use]
    nn, lm, inv = last("nnls"), last("lmfit"), last("inv")
    src = nn or (lm if method == "lsq" else inv) or inv
    if src is lm and lm is not None and "A" not in lm:
        A, b = np.asarray(lm["args"][0], dtype=object), list(np.asarray(lm["args"][1], dtype=object).reshape(-1))
    else:
        A, b = np.asarray(src["A"], dtype=object), list(src["b"])
    n_e = len(cols)
    z = [T[ln] for ln in cols] + [0]
    res_ok = env.true() & (A.shape[1] == n_e + 1)
    for i in range(A.shape[0] - 1):
        lhs = sum((A[i, j] * z[j] for j in range(1, n_e + 1)), A[i, 0] * z[0])
        res_ok = res_ok & env.close(lhs, b[i], 5e-4)
    lhs = sum((A[A.shape[0] - 1, j] * z[j] for j in range(1, n_e + 1)), A[A.shape[0] - 1, 0] * z[0])
    res_ok = res_ok & env.eq(lhs, b[A.shape[0] - 1])
    obs.append(Ob("true-tensions-solve-the-solved-system-up-to-the-velocity-rounding", res_ok))
    x = list(src["x"])
    forces = F.frames[t].forces
    obs.append(Ob("reported-values-are-the-back-end's", (len(forces) == n_e) & env.conj([env.eq(forces[j], x[j]) for j in range(n_e)])))
    return obs


def jobs(tier):
    js = []
    quick = tier == "quick"
    combos = [("id", "rev", "gap")] if quick else [("id", "rev", "gap"), ("der", "id", "rev"), ("gap", "der", "der")]
    for topo in (("T3",) if quick else ("T3", "K4-n0")):
        for perms in combos:
            for t in (0, 1, 2):
                for method in (None, "lsq"):
                    if topo != "T3" and method:
                        continue
                    js.append(Job(f"consistent-{topo}-{'-'.join(perms)}-t{t}-{method or 'default'}", "c03:consistent",
                                  dict(topo=topo, perms=list(perms), t=t, method=method), budget_s=1200, max_paths=3000,
                                  opts=dict(cheap_forks=True), weight=4))
    # two-frame series (the smallest series with dynamics): first frame forward, last frame backward
    for t in (0, 1):
        js.append(Job(f"consistent-T3-two-frames-t{t}", "c03:consistent", dict(topo="T3", perms=["id", "rev"], t=t, method=None, nframes=2),
                      budget_s=1200, max_paths=3000, opts=dict(cheap_forks=True), weight=4))
    # O1 link: re-run of the C13 right-hand-side obligation on the smallest configuration
    for t in (0, 2):
        js.append(Job(f"rhs-T3-id-rev-gap-t{t}", "c13:rhs", dict(topo="T3", perms=["id", "rev", "gap"], t=t, adim=False, mode="velocity"),
                      budget_s=900, max_paths=2000, opts=dict(cheap_forks=True), weight=3))
    return js
