"""C06 -- inference is invariant under similarity transforms and changes of units.

O1  tangent equivariance: the real get_versor_from_vertex on an arc and on its image under a symbolic translation, positive
    scaling, rotation (c, s) or reflection.  Translation and scaling: identical versor everywhere.  Rotation / reflection:
    the versor rotates / reflects wherever neither the arc nor its image lies in the recorded per-component sign-forcing
    region (which is frame dependent by construction).
O2  total curvature under rotation (C04 covers translation, scaling, reflection); cell area sign under rotation/reflection.
O3  units of the velocity term: with adimensional velocities the right-hand side does not change when all time stamps are
    multiplied by tau > 0 or all lengths by k > 0.
O4  the augmented problem solved for a rotated tissue: the optimum of the original problem is an optimum of the rotated one
    whenever its residual and multiplier vanish; otherwise the multiplier column (not rotated with the row pairs) makes the
    answer frame dependent -- recorded finding.
"""
import numpy as np

from symx.runner import Job
from symx.harness import Ob
from symx import stubs, tissue
from harness import c02, c04, c13
from harness.common import catalogue, VersorStub
from harness.solving import build_case, solve, last

PROPERTY = "C06"

META = dict(
    explanation="Transform parameters (translation vector, scale factor, rotation unit vector, time and length unit factors) are "
                "symbols next to the geometry, so the whole continuous group is covered inside the bounds.",
    bounds=dict(arcs="3 (5 thorough) points on the unit circle", transforms="translation (a,b), scale k>0, rotation (c,s) with c^2+s^2=1, reflection x -> -x",
                units="T3 three-frame series, tau > 0, k > 0", solve="T3, K3-n0 with noisy tangents, rotation (c,s)"),
    outside=["'tolerance scaled by conditioning' (exact arithmetic has no conditioning)", "factors as floats 1e-3..1e3 (all positive reals are covered symbolically)",
             "pressures under transforms beyond what follows from the curvature and area-sign obligations"],
    assumptions=["circle-fit stubs return the transformed circumcentre", "back-end contracts as in C05"],
    trusted=["z3"],
)


def _mismatch(tx, ty, dx, dy):
    mx = (tx != 0) & (((dx >= 0) & (tx < 0)) | ((dx < 0) & (tx > 0)))
    my = (ty != 0) & (((dy >= 0) & (ty < 0)) | ((dy < 0) & (ty > 0)))
    return mx | my


def tangent(env, n, ccw, what, fit="dlite"):
    import forsys as fs
    pts, cs, (ox, oy), r = c02._arc(env, n, ccw)
    sgn = 1 if ccw else -1
    tx, ty = -sgn * cs[0][1], sgn * cs[0][0]
    dx, dy = cs[1][0] - cs[0][0], cs[1][1] - cs[0][1]
    be, vs = c02._interface(fs, pts)
    stubs.register_circle(vs, 0, 0, 1)
    v0 = be.get_versor_from_vertex(vs[0].id, fit_method=fit)
    if what == "translation":
        a, b = env.real("ta"), env.real("tb")
        f = lambda p: (p[0] + a, p[1] + b)
        lin = lambda v: v
        centre, rad = (a, b), 1
    elif what == "scaling":
        k = env.real("k")
        env.assume(k > 0)
        env.hint_positive("k")
        f = lambda p: (k * p[0], k * p[1])
        lin = lambda v: v
        centre, rad = (0, 0), k
    elif what == "rotation":
        c, s = env.unit("R")
        f = lambda p: (c * p[0] - s * p[1], s * p[0] + c * p[1])
        lin = f
        centre, rad = (0, 0), 1
    elif what == "reflection":
        f = lambda p: (-p[0], p[1])
        lin = f
        centre, rad = (0, 0), 1
    else:
        raise ValueError(what)
    pts2 = [f(p) for p in pts]
    be2, vs2 = c02._interface(fs, pts2, 100)
    stubs.register_circle(vs2, centre[0], centre[1], rad)
    v1 = be2.get_versor_from_vertex(vs2[0].id, fit_method=fit)
    want = lin((v0[0], v0[1]))
    good = env.eq(v1[0], want[0]) & env.eq(v1[1], want[1])
    if what in ("translation", "scaling"):
        lem = []
        if what == "scaling":
            lem = [env.eq(np.sqrt((k * cs[0][1]) ** 2 + (k * cs[0][0]) ** 2), k * np.sqrt(cs[0][1] ** 2 + cs[0][0] ** 2))]
        return [Ob(f"{what}-leaves-the-coefficient-pair-unchanged", good, lemmas=lem)]
    t2 = lin((tx, ty))
    d2 = lin((dx, dy))
    region = _mismatch(tx, ty, dx, dy) | _mismatch(t2[0], t2[1], d2[0], d2[1])
    return [Ob(f"{what}-turns-the-coefficient-pair-with-the-tissue", good, finding="tangent_chord_quadrant_mismatch", region=region)]


def curvature_rotation(env):
    import forsys as fs
    n = 3
    xs, ys = env.reals("x", n), env.reals("y", n)
    for i in range(n - 1):
        env.assume((xs[i] != xs[i + 1]) | (ys[i] != ys[i + 1]))
    env.assume((xs[0] != xs[2]) | (ys[0] != ys[2]))
    c, s = env.unit("R")
    be = c04._bigedge(fs, list(zip(xs, ys)))
    be2 = c04._bigedge(fs, [(c * x - s * y, s * x + c * y) for x, y in zip(xs, ys)], 100)
    k0, k1 = be.calculate_curvature(), be2.calculate_curvature()
    lem = []
    for i in range(n - 1):
        l1 = np.sqrt(((c * xs[i + 1] - s * ys[i + 1]) - (c * xs[i] - s * ys[i])) ** 2 + ((s * xs[i + 1] + c * ys[i + 1]) - (s * xs[i] + c * ys[i])) ** 2)
        l0 = np.sqrt((xs[i + 1] - xs[i]) ** 2 + (ys[i + 1] - ys[i]) ** 2)
        lem.append(env.eq(l1, l0))
    lem += [env.eq(k1[i], k0[i]) for i in range(n)]
    return [Ob("rotation-keeps-total-curvature", env.eq(be2.calculate_total_curvature(normalized=False),
                                                         be.calculate_total_curvature(normalized=False)), lemmas=lem)]


def area_sign(env, n, what):
    import forsys as fs
    xs, ys = env.reals("x", n), env.reals("y", n)
    vs0 = [fs.vertex.Vertex(i, xs[i], ys[i]) for i in range(n)]
    c0 = fs.cell.Cell(0, vs0)
    if what == "rotation":
        c, s = env.unit("R")
        pts = [(c * x - s * y, s * x + c * y) for x, y in zip(xs, ys)]
        sign = 1
    elif what == "reflection":
        pts = [(-x, y) for x, y in zip(xs, ys)]
        sign = -1
    else:
        a, b, k = env.real("ta"), env.real("tb"), env.real("k")
        env.assume(k > 0)
        pts = [(k * x + a, k * y + b) for x, y in zip(xs, ys)]
        sign = 1
    vs1 = [fs.vertex.Vertex(100 + i, p[0], p[1]) for i, p in enumerate(pts)]
    c1 = fs.cell.Cell(1, vs1)
    return [Ob(f"{what}-area-sign", c1.get_area_sign() == sign * c0.get_area_sign())]


def units(env, factor, t):
    """adimensional right-hand side of two series that differ only in the unit of time (tau) or of length (k)."""
    fs, spec, ends, times, builts, frames, pos, guess = c13.series(env, "T3", ["id", "rev", "gap"])
    F = fs.ForSys(frames, cm=False, initial_guess=guess)
    q = env.real("unit")
    env.assume(q > 0)
    env.hint_positive("unit")
    # second series
    builts2, frames2 = {}, {}
    for k in range(len(frames)):
        coords = {pn: ((q * p[0], q * p[1]) if factor == "length" else p) for pn, p in pos[k].items()}
        b2 = tissue.build(spec.copy(), fs, coords=coords, vid=c13.PERMS[["id", "rev", "gap"][k]](len(spec.points)))
        builts2[k] = b2
        frames2[k] = fs.frames.Frame(k, b2.vertices, b2.edges, b2.cells, time=(q * times[k] if factor == "time" else times[k]))
    F2 = fs.ForSys(frames2, cm=False, initial_guess=guess)
    if any(m is None for m in F.mesh.mapping.values()) or any(m is None for m in F2.mesh.mapping.values()):
        return []
    both = {("a", k): v for k, v in builts.items()}
    both.update({("b", k): v for k, v in builts2.items()})
    vs = VersorStub(env, fs, both)
    nf = len(frames)
    for pn in spec.used_junctions():
        for kk in range(nf - 1):
            env.assume((pos[kk + 1][pn][0] != pos[kk][pn][0]) | (pos[kk + 1][pn][1] != pos[kk][pn][1]))
        for fk in both:
            for ln in spec.lines_at(pn):
                u = vs.u(ln, pn, fk)
                env.assume(u[0] != 0, soft=True)
                env.assume(u[1] != 0, soft=True)
    try:
        F.build_force_matrix(when=t)
        F2.build_force_matrix(when=t)
        b1, ave1 = F.force_matrices[t].set_velocity_matrix(F.mesh, b_matrix="velocity", adimensional_velocity=True)
        b2, ave2 = F2.force_matrices[t].set_velocity_matrix(F2.mesh, b_matrix="velocity", adimensional_velocity=True)
    finally:
        vs.restore()
    other = t + 1 if t < nf - 1 else t - 1
    lem = []
    for pn in spec.used_junctions():
        dx, dy = pos[other][pn][0] - pos[t][pn][0], pos[other][pn][1] - pos[t][pn][1]
        # speed lemmas: |v/(q dt)| = |v/dt| / q   resp.   |q v/dt| = q |v/dt|
        v1 = F.mesh.calculate_velocity(builts[t].vid_of[pn], t)
        v2 = F2.mesh.calculate_velocity(builts2[t].vid_of[pn], t)
        n1 = np.sqrt(v1[0] * v1[0] + v1[1] * v1[1])
        n2 = np.sqrt(v2[0] * v2[0] + v2[1] * v2[1])
        lem.append(env.eq(n2 * q, n1) if factor == "time" else env.eq(n2, q * n1))
    lem.append(env.eq(ave2 * q, ave1) if factor == "time" else env.eq(ave2, q * ave1))
    same = env.true() & (b1.shape == b2.shape)
    for i in range(b1.shape[0]):
        same = same & env.eq(b1[i, 0], b2[i, 0], tol=1e-6)
    return [Ob(f"adimensional-rhs-unchanged-by-the-{factor}-unit", same, lemmas=lem)]


def solve_rotation(env, topo):
    """noisy (non-equilibrium) tangents u and their rotated images R u: the optimum x of the original augmented problem,
    tested against the optimality conditions of the rotated problem."""
    from harness.c05 import general_position
    c = build_case(env, topo, unit=True)
    general_position(env, c)
    cc, ss = env.unit("R")
    err, warns = solve(c, build_kw=dict(angle_limit=np.inf), allow_negatives=False)
    c.vs.restore()
    obs = [Ob("solve-does-not-raise", err is None)]
    if err is not None:
        return obs
    nn = last("nnls")
    if nn is None:
        return obs + [Ob("nnls-back-end-answered", False)]
    A = np.asarray(nn["A"], dtype=object)
    b = list(nn["b"])
    x = list(nn["x"])
    m1, n1 = A.shape
    m = m1 - 1
    if env.mode == "sym":
        if "r" not in nn:
            return obs        # degenerate concrete system (no junction kept): nothing symbolic to compare
        r, g = nn["r"], nn["g"]
        # rotated system: every junction's (x, y) row pair is turned by R; the multiplier column and the sum row stay
        A2 = np.empty((m1, n1), dtype=object)
        for k in range(0, m, 2):
            for j in range(n1 - 1):
                A2[k, j] = cc * A[k, j] - ss * A[k + 1, j]
                A2[k + 1, j] = ss * A[k, j] + cc * A[k + 1, j]
            A2[k, n1 - 1], A2[k + 1, n1 - 1] = A[k, n1 - 1], A[k + 1, n1 - 1]
        for j in range(n1):
            A2[m, j] = A[m, j]
        r2 = [sum((A2[i, j] * x[j] for j in range(1, n1)), A2[i, 0] * x[0]) - b[i] for i in range(m1)]
        g2 = [sum((A2[i, j] * r2[i] for i in range(1, m1)), A2[0, j] * r2[0]) for j in range(n1)]
        kkt2 = env.conj([g2[j] >= 0 for j in range(n1)] + [x[j] * g2[j] <= 0 for j in range(n1)])
        region = env.neg(env.conj([env.eq(ri, 0) for ri in r])) | (x[n1 - 1] != 0)
        lem = [env.eq(v, 0) for v in r2] + [env.eq(v, 0) for v in g2]
        lem = [env.implies(env.neg(region), l) for l in lem]
        return obs + [Ob("optimum-is-also-the-optimum-of-the-rotated-tissue", kkt2, finding="multiplier_column_not_rotation_invariant",
                         region=region, lemmas=lem)]
    # concrete replay: solve the rotated tissue with the real back-end and compare the reported tensions
    f0 = dict(c.frame.forces)
    import forsys as fs
    c2 = build_case(env, topo, unit=True, prefix="w")
    base = c.vs

    def rot(ln, pn, fk=None):
        u = base.u(ln, pn)
        return np.array([cc * u[0] - ss * u[1], ss * u[0] + cc * u[1]], dtype=float)
    c2.vs.u = rot
    c2.vs.lookup = lambda be, vid: rot(tissue.line_of_big_edge(c2.built, be.get_vertices_ids())[0], c2.built.point_of[vid])
    err2, _ = solve(c2, build_kw=dict(angle_limit=np.inf), allow_negatives=False)
    c2.vs.restore()
    same = err2 is None and all(abs(f0[i] - c2.frame.forces[i]) <= 1e-6 for i in f0)
    return obs + [Ob("optimum-is-also-the-optimum-of-the-rotated-tissue", same)]


def assembly(env, topo, what):
    """the assembled system of a rotated / reflected tissue: same unknowns, same junctions, coefficient pairs turned."""
    import forsys as fs
    import forsys.fmatrix as fmx
    spec = catalogue(topo, n_spoke=3, n_border=2)
    internal = spec.internal_lines()
    b1 = tissue.build(spec, fs)
    b2 = tissue.build(spec, fs)
    f1 = fs.frames.Frame(0, b1.vertices, b1.edges, b1.cells, time=0)
    f2 = fs.frames.Frame(0, b2.vertices, b2.edges, b2.cells, time=0)
    vs = VersorStub(env, fs, {"a": b1, "b": b2})
    if what == "rotation":
        cc, ss = env.unit("R")
        lin = lambda u: (cc * u[0] - ss * u[1], ss * u[0] + cc * u[1])
    else:
        lin = lambda u: (-u[0], u[1])
    base = vs.u

    def u(ln, pn, fk=None):
        v = base(ln, pn, "a")
        if fk == "b":
            w = lin(v)
            a = np.empty(2, dtype=object if env.mode == "sym" else float)
            a[0], a[1] = w[0], w[1]
            return a
        return v
    vs.u = u
    try:
        m1 = fmx.ForceMatrix(f1, "none", "none", {}, {}, angle_limit=np.inf)
        m2 = fmx.ForceMatrix(f2, "none", "none", {}, {}, angle_limit=np.inf)
    finally:
        vs.restore()
    region = c02.filter_deviates(env, spec, internal, lambda ln, pn: u(ln, pn, "a"), None) | \
        c02.filter_deviates(env, spec, internal, lambda ln, pn: u(ln, pn, "b"), None)
    rows1 = {b1.point_of[v]: r for v, r in m1.map_vid_to_row.items()}
    rows2 = {b2.point_of[v]: r for v, r in m2.map_vid_to_row.items()}
    cols1 = [tissue.line_of_big_edge(b1, e)[0] for e in m1.big_edges_to_use]
    cols2 = [tissue.line_of_big_edge(b2, e)[0] for e in m2.big_edges_to_use]
    same_shape = (sorted(rows1) == sorted(rows2)) and cols1 == cols2 and m1.matrix.shape == m2.matrix.shape
    ok = env.true() & same_shape
    if same_shape:
        for pn, r1 in rows1.items():
            r2 = rows2[pn]
            for ci in range(len(cols1)):
                w = lin((m1.matrix[r1, ci], m1.matrix[r1 + 1, ci]))
                ok = ok & env.eq(m2.matrix[r2, ci], w[0]) & env.eq(m2.matrix[r2 + 1, ci], w[1])
    return [Ob(f"assembled-coefficient-pairs-follow-the-{what}", ok, finding="zero_tangent_component", region=region)]


def jobs(tier):
    js = []
    quick = tier == "quick"
    for topo in (("T3",) if quick else ("T3", "T4", "K3-n0", "K3")):
        for what in ("rotation", "reflection"):
            js.append(Job(f"assembly-{what}-{topo}", "c06:assembly", dict(topo=topo, what=what), budget_s=900, max_paths=5000, weight=3))
    for n in ((3,) if quick else (3, 5)):
        for ccw in (True, False):
            for what in ("translation", "scaling", "rotation", "reflection"):
                if quick and what == "rotation" and not ccw:
                    continue
                js.append(Job(f"tangent-{what}-n{n}-{'ccw' if ccw else 'cw'}", "c06:tangent", dict(n=n, ccw=ccw, what=what), budget_s=900,
                              max_paths=3000, weight=5 if what == "rotation" else 1))
    js.append(Job("curvature-rotation", "c06:curvature_rotation", {}, budget_s=900, weight=4))
    # two-point interfaces: the coefficient pair is the *unit* chord for every length (hence for every length unit)
    for end in ("first", "last"):
        js.append(Job(f"two-point-unit-chord-{end}", "c02:two_point", dict(fit="dlite", end=end), budget_s=300))
    for what in ("translation", "reflection", "scaling"):
        js.append(Job(f"curvature-{what}", "c04:similarity", dict(what=what), budget_s=900, weight=4))
    for n in ((3, 4) if quick else (3, 4, 5, 6)):
        for what in ("rotation", "reflection", "similarity"):
            js.append(Job(f"area-sign-{what}-n{n}", "c06:area_sign", dict(n=n, what=what), budget_s=600))
    for factor in ("time", "length"):
        for t in ((0, 2) if quick else (0, 1, 2)):
            js.append(Job(f"units-{factor}-t{t}", "c06:units", dict(factor=factor, t=t), budget_s=900, max_paths=3000,
                          opts=dict(cheap_forks=True), weight=4))
    for topo in (("T3",) if quick else ("T3", "K3-n0")):
        js.append(Job(f"solve-rotation-{topo}", "c06:solve_rotation", dict(topo=topo), budget_s=900, opts=dict(cheap_forks=True), weight=4))
    return js
