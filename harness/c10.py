"""C10 -- results are a pure function of frame data and the last call's arguments.

Two-frame series of a catalogue tissue; tangents are symbols keyed by (frame, interface, junction) -- the two frames
have unrelated geometry as far as the inference is concerned -- and every back-end is an uninterpreted function of
its arguments (same system => same symbols, another system => unrelated symbols).
O1: content of every result store after one build/solve/build/solve.
O2: an arbitrary prefix of API calls followed by the canonical calls for frame t leaves exactly what a fresh object
    reports (the call choices are symbolic integers the engine forks on).
"""
import warnings

import numpy as np

from symx.runner import Job
from symx.harness import Ob
from symx import stubs, tissue
from harness.common import catalogue, VersorStub

PROPERTY = "C10"

META = dict(
    explanation="Histories are sequences of the public ForSys calls; each choice is a symbolic integer, so the explorer covers "
                "every history inside the bound, and inside each history every tangent value and every back-end result.",
    bounds=dict(tissues="T3 and K3 two-frame series", prefix_length="4 warm-up builds + 1 free call (quick) or 2 free calls (thorough) + 4 canonical calls, T3; K3 only for the store contents",
                alphabet="build_force_matrix(t), solve_stress(t, method in default/lsq/lsq_linear[/fix_stress], b_matrix none/velocity, "
                         "angle_limit default/2pi/3), build_pressure_matrix(t), solve_pressure(t), get_system_velocity_per_frame()",
                frames="2"),
    outside=["histories longer than the prefix bound + 4 canonical calls", "more than two frames", "interface geometry (tangents are stubbed)"],
    assumptions=["back-ends are functions of their arguments (deterministic libraries)", "tangent stub contract (C02-A)",
                 "pressure rows use the concrete catalogue geometry; tensions symbolic"],
    trusted=["z3"],
)

METHODS = [None, "lsq", "lsq_linear"]


def make(env, topo, tag):
    """a fresh two-frame ForSys object on topology `topo`; tangent symbols shared across objects with the same tag."""
    import forsys as fs
    builts, frames = {}, {}
    for t in (0, 1):
        spec = catalogue(topo, n_spoke=4, n_border=2, rot=0.2 + 0.02 * t, bulge=0.12)   # curved interfaces: non-zero pressures
        # frame 1 is frame 0 slightly rotated and shifted, so that every junction has a non-zero velocity
        spec.points = {k: (x + 0.05 * t, y + 0.03 * t) for k, (x, y) in spec.points.items()}
        b = tissue.build(spec, fs)
        builts[t] = b
        frames[t] = fs.frames.Frame(t, b.vertices, b.edges, b.cells, time=float(t))
    F = fs.ForSys(frames)
    return fs, F, builts


def general_position(env, vs, builts, frames=(0, 1)):
    """soft: no tangent component exactly zero, no two tangents at one vertex exactly antiparallel (those regions are
    the subject of the C02 / C16 findings)."""
    for fk in frames:
        b = builts[fk]
        spec = b.spec
        internal = set(spec.internal_lines())
        ends = set()
        for ln in internal:
            ends.add(spec.lines[ln][0])
            ends.add(spec.lines[ln][-1])
        for pn in ends:
            us = [vs.u(ln, pn, fk) for ln in spec.lines_at(pn)]
            for u in us:
                env.assume(u[0] != 0, soft=True)
                env.assume(u[1] != 0, soft=True)
            for i in range(len(us)):
                for j in range(i + 1, len(us)):
                    env.assume(us[i][0] * us[j][0] + us[i][1] * us[j][1] > -1, soft=True)


def call(F, c, t):
    kind = c[0]
    if kind == "B":
        F.build_force_matrix(when=c[1], **c[2])
    elif kind == "S":
        with warnings.catch_warnings():
            warnings.simplefilter("ignore")
            F.solve_stress(when=c[1], **c[2])
    elif kind == "BP":
        F.build_pressure_matrix(when=c[1])
    elif kind == "SP":
        F.solve_pressure(when=c[1], method="lagrange_pressure")
    elif kind == "V":
        F.get_system_velocity_per_frame()


def canonical(t):
    return [("B", t, {}), ("S", t, dict(allow_negatives=False)), ("BP", t), ("SP", t)]


def observe(F, builts, t):
    fr = F.frames[t]
    b = builts[t]
    o = {}
    forces = getattr(fr, "forces", None)
    o["frame.forces"] = None if forces is None else {k: forces[k] for k in forces}
    o["F.forces"] = None if F.forces.get(t) is None else {k: F.forces[t][k] for k in F.forces[t]}
    o["bigedge.tension"] = {tuple(be.get_vertices_ids()): be.tension for be in fr.big_edges.values()}
    o["smalledge.tension"] = {eid: e.tension for eid, e in fr.edges.items()}
    o["cell.pressure"] = {cid: c.pressure for cid, c in fr.cells.items()}
    p = F.pressures
    o["F.pressures"] = p.get(t) if isinstance(p, dict) else ("not-a-dict", list(p))
    df = fr.get_tensions()
    o["table.ids"] = list(df["id"])
    o["table.stress"] = list(df["stress"])
    return o


def same(env, a, b):
    if a is None or b is None:
        return a is None and b is None
    if isinstance(a, dict):
        if not isinstance(b, dict) or list(a.keys()) != list(b.keys()):
            return False
        r = env.true()
        for k in a:
            r = r & same(env, a[k], b[k])
        return r
    if isinstance(a, (list, tuple)):
        if not isinstance(b, (list, tuple)) or len(a) != len(b):
            return False
        r = env.true()
        for x, y in zip(a, b):
            r = r & same(env, x, y)
        return r
    if isinstance(a, str) or isinstance(b, str):
        return a == b
    return env.eq(a, b)


def content(env, topo, t, method, limit=None):
    """O1: what every store holds after one canonical build/solve/build/solve of frame t."""
    fs, F, builts = make(env, topo, "a")
    vs = VersorStub(env, fs, builts)
    general_position(env, vs, builts)
    try:
        kw = dict(allow_negatives=False)
        if method:
            kw["method"] = method
        F.build_force_matrix(when=t, angle_limit=np.inf if limit is None else limit)
        with warnings.catch_warnings():
            warnings.simplefilter("ignore")
            F.solve_stress(when=t, **kw)
        # what the tension back-end returned, recorded before the pressure solve adds its own captures
        snap = {k: list(v) for k, v in stubs.CAP.items()}
        F.build_pressure_matrix(when=t)
        F.solve_pressure(when=t, method="lagrange_pressure")
    finally:
        vs.restore()
    fr, b = F.frames[t], builts[t]
    other = F.frames[1 - t]
    src = snap.get("nnls") or snap.get("inv") or snap.get("lsq_linear") or snap.get("lmfit")
    x = list(src[-1]["x"]) if method != "lsq" or not snap.get("lmfit") else list(snap["lmfit"][-1]["x"])
    if method == "lsq_linear":
        x = list(snap["lsq_linear"][-1]["x"])
    internal = fr.internal_big_edges
    n = len(internal)
    obs = []
    fm = F.force_matrices[t]
    used = [tuple(e) for e in fm.big_edges_to_use]
    obs.append(Ob("one-force-per-internal-interface", len(fr.forces) == n and list(fr.forces.keys()) == list(range(n))))
    ok = env.true()
    k = 0
    for i, be in enumerate(internal):
        if tuple(be.get_vertices_ids()) in used:
            ok = ok & env.eq(fr.forces[i], x[k]) & env.eq(be.tension, x[k])
            for eid in be.edges:
                ok = ok & env.eq(fr.edges[eid].tension, x[k])
            k += 1
        else:
            # excluded by the angle limit: reported as -1, nothing stored on it
            ok = ok & env.eq(fr.forces[i], -1) & env.eq(be.tension, 0)
    obs.append(Ob("ith-force-is-ith-interface-and-equals-stored-tensions", ok))
    ext_ok = env.true()
    for be in fr.big_edges.values():
        if be not in internal:
            ext_ok = ext_ok & env.eq(be.tension, 0)
            for eid in be.edges:
                ext_ok = ext_ok & env.eq(fr.edges[eid].tension, 0)
    obs.append(Ob("external-interfaces-stay-zero", ext_ok))
    df = fr.get_tensions()
    obs.append(Ob("tension-table-lists-internal-interfaces-in-order",
                  (list(df["id"]) == [be.big_edge_id for be in internal]) &
                  env.conj([env.eq(v, be.tension) for v, be in zip(list(df["stress"]), internal)]) if len(df) == n else False))
    obs.append(Ob("solver-store-forces-keyed-by-frame", (F.forces[t] is fr.forces) and F.forces[1 - t] is None))
    pm = F.pressure_matrices[t]
    sol = pm.solution
    pok = env.true()
    for cid, cell in fr.cells.items():
        pok = pok & env.eq(cell.pressure, sol[pm.mapping_order[cid]])
    obs.append(Ob("each-cell-carries-its-own-pressure", pok))
    P = F.pressures
    if isinstance(P, dict) and P.get(t) is not None:
        pcond = (P.get(1 - t) is None) & (len(P[t]) == len(fr.cells)) & same(env, list(P[t]), list(sol))
    else:
        pcond = False
    obs.append(Ob("solver-store-pressures-keyed-by-frame", pcond))
    untouched = env.true()
    for e in other.edges.values():
        untouched = untouched & env.eq(e.tension, 0)
    for c in other.cells.values():
        untouched = untouched & (c.pressure is None)
    obs.append(Ob("other-frame-untouched", untouched))
    return obs


def alphabet(tier):
    al = []
    for f in (0, 1):
        al.append(("B", f, {}))
        al.append(("B", f, dict(angle_limit=2 * np.pi / 3)))
        al.append(("S", f, dict(allow_negatives=False)))
        al.append(("S", f, dict(method="lsq_linear")))
        al.append(("S", f, dict(b_matrix="velocity", allow_negatives=False)))
        al.append(("BP", f))
        al.append(("SP", f))
        if tier == "thorough":
            al.append(("S", f, dict(method="lsq")))
            al.append(("S", f, dict(b_matrix="velocity", adimensional_velocity=True)))
    al.append(("V",))
    return al


def history(env, topo, t, length, first, tier, rebuild=True):
    """O2: prefix of `length` calls (the first one fixed per job to spread the work), then the canonical calls."""
    al = alphabet(tier)
    if not rebuild:
        # the canonical calls re-use the matrix built in the warm-up, so the free calls must not rebuild it
        al = [c for c in al if c[0] not in ("B", "V")]
    fs, FA, bA = make(env, topo, "a")
    fs, FB, bB = make(env, topo, "a")
    both = {("A", k): v for k, v in bA.items()}
    both.update({("B", k): v for k, v in bB.items()})
    vs = VersorStub(env, fs, both)
    # the same physical (frame, interface, junction) gets the same symbol in both objects
    _u = vs.u

    def u(ln, pn, fk=None):
        return _u(ln, pn, fk[1] if isinstance(fk, tuple) else fk)
    vs.u = u
    general_position(env, vs, bA)
    chosen = []
    try:
        # warm-up that makes every later call admissible (matrices exist); it solves nothing
        prefix = [("B", 0, {}), ("B", 1, {}), ("BP", 0), ("BP", 1)]
        prefix += [al[first]] if length >= 1 else []
        for k in range(1, length):
            prefix.append(env.choice(f"call{k}", al))
        valid = True
        for c in prefix:
            try:
                call(FA, c, t)
            except KeyError:
                valid = False       # e.g. solve before build: not a valid history
                break
            except (ValueError, IndexError, TypeError) as e:
                chosen.append(f"{c} raised {type(e).__name__}")
        if not valid:
            return []
        suffix = canonical(t)
        for c in (suffix if rebuild else suffix[1:]):
            call(FA, c, t)
        for c in suffix:
            call(FB, c, t)
        oa, ob = observe(FA, bA, t), observe(FB, bB, t)
    finally:
        vs.restore()
    obs = []
    for key in oa:
        obs.append(Ob(f"history-independent:{key}", same(env, oa[key], ob[key]), note=str(prefix)))
    return obs


def jobs(tier):
    js = []
    quick = tier == "quick"
    for topo in ("T3", "K3"):
        for t in (0, 1):
            for method in (None, "lsq_linear") if quick else (None, "lsq", "lsq_linear"):
                if quick and topo == "K3" and (t == 1 or method):
                    continue
                js.append(Job(f"content-{topo}-t{t}-{method or 'default'}", "c10:content", dict(topo=topo, t=t, method=method),
                              budget_s=900, weight=8 if topo == "K3" else 1, opts=dict(cheap_forks=True), max_paths=2000))
    nal = len(alphabet(tier))
    nal2 = len([c for c in alphabet(tier) if c[0] not in ("B", "V")])
    if quick:
        plan = [("T3", 1, 1, range(nal), True), ("T3", 1, 1, range(nal2), False)]
    else:
        # measured: one two-call T3 history job explores 180..1100 paths (1..5 min); K3 histories do not finish one job in 40 min (outside)
        plan = [("T3", 1, 2, range(nal), True), ("T3", 0, 1, range(nal), True), ("T3", 1, 2, range(nal2), False)]
    for topo, t, L, firsts, rebuild in plan:
        for first in firsts:
            name = f"history-{topo}-t{t}-first{first}-len{L}" if rebuild else f"history-{topo}-resolve-without-rebuild-first{first}-len{L}"
            js.append(Job(name, "c10:history", dict(topo=topo, t=t, length=L, first=first, tier=tier, rebuild=rebuild), budget_s=2400,
                          max_paths=20000, weight=3, opts=dict(cheap_forks=True)))
    for topo in ("T3",) if quick else ("T3", "K3"):
        for method in (None, "lsq_linear"):
            js.append(Job(f"content-{topo}-t0-{method or 'default'}-limit=2pi/3", "c10:content",
                          dict(topo=topo, t=0, method=method, limit=2 * np.pi / 3), budget_s=900, max_paths=3000,
                          opts=dict(cheap_forks=True), weight=4))
    return js
