"""C12 -- vertex tracking between frames is injective and follows small motions.

Real TimeSeries.__post_init__ / create_mapping / find_best / get_point_id_by_map on a two-frame (three-frame) series of a
catalogue tissue: frame k+1 = frame k + symbolic displacement of every interface end point, renumbered by a permutation.
O1 (always): keys / values are interface end points of the respective frames, no two keys share a target, user pairings kept.
O2 (small motions): every junction is mapped to its true successor; forward-then-backward lookup is the identity.
"""
import numpy as np

from symx.runner import Job
from symx.harness import Ob
from symx import tissue
from harness.common import catalogue
from harness.c13 import PERMS

PROPERTY = "C12"

META = dict(
    explanation="Displacements of all tracked points are symbols inside a box; the nearest-neighbour search with growing radius forks on "
                "every distance comparison and the explorer follows every feasible outcome.",
    bounds=dict(tissues="T3 (4 tracked points; K3-n0 thorough)", frames="2; one 3-frame series whose last frame repeats the positions of the second under another numbering",
                displacement="|dx|,|dy| <= 0.3% of the extent (inside the first search radius); thorough adds 0.55% (second radius)",
                renumbering="identity, reversal, gaps, derangement", options="cm off, partial initial_guess"),
    outside=["cm=True (centre-of-mass shift with 3-decimal rounding: exploration did not finish within the budget)",
             "displacements beyond 0.55% of the extent: path explosion of the growing-radius search (measured: 150 paths in 300 s at 0.8% and not finished)",
             "tissues with more than 4 tracked points in the quick tier", "the whole hypothesis region of O2 (half the junction spacing / 8% of the extent): "
             "only the inner box is covered", "4..6-frame series"],
    assumptions=["builtins min / max on symbols are If-terms", "np.around of the centre of mass (cm=True) = 3-decimal rounding model"],
    trusted=["z3"],
)


def track(env, topo, perm, box, cm, guess_pn, nframes=2, guess_target=None, still_last=False, default_guess=False, scale=1.0):
    import forsys as fs
    spec0 = catalogue(topo, n_spoke=2, n_border=2)
    # tracked points = end points of the interfaces forsys itself finds (in sub-tissues some line ends are interior points)
    _b = tissue.build(spec0.copy(), fs)
    _f = fs.frames.Frame(0, _b.vertices, _b.edges, _b.cells, time=0.0)
    ends = set()
    for e in _f.big_edges_list:
        ends.add(_b.point_of[e[0]])
        ends.add(_b.point_of[e[-1]])
    if scale != 1.0:
        spec0.points = {k: (x * scale, y * scale) for k, (x, y) in spec0.points.items()}      # another length unit
    xs = [p[0] for p in spec0.points.values()]
    ys = [p[1] for p in spec0.points.values()]
    extent = max(max(xs) - min(xs), max(ys) - min(ys))
    lim = box * extent
    builts, frames, pos = {}, {}, {}
    n = len(spec0.points)
    for k in range(nframes):
        coords = {}
        for pn, p in spec0.points.items():
            if k == 0 or pn not in ends:
                coords[pn] = p
            elif still_last and k == nframes - 1:
                coords[pn] = pos[k - 1][pn]        # last frame: same positions as the one before, other numbering
            else:
                dx, dy = env.real(f"dx{k}_{pn}"), env.real(f"dy{k}_{pn}")
                env.assume(dx >= -lim)
                env.assume(dx <= lim)
                env.assume(dy >= -lim)
                env.assume(dy <= lim)
                env.hint_value(f"dx{k}_{pn}", 0.3 * lim)
                env.hint_value(f"dy{k}_{pn}", -0.2 * lim)
                prev = pos[k - 1][pn]
                coords[pn] = (prev[0] + dx, prev[1] + dy)
        pos[k] = coords
        b = tissue.build(spec0.copy(), fs, coords=coords, vid=PERMS[(perm if k % 2 else "id") if k < 2 else "gap"](n))
        builts[k] = b
        frames[k] = fs.frames.Frame(k, b.vertices, b.edges, b.cells, time=float(k))
    guess = {k: {} for k in range(nframes)}
    if guess_target == "@id0":
        # the user pairs guess_pn with the frame-1 vertex whose id is 0 (a falsy id must still count as taken)
        guess_target = next((pn for pn in sorted(ends) if builts[1].vid_of[pn] == 0 and pn != guess_pn), None) or sorted(ends - {guess_pn})[0]
    if guess_pn:
        # guess_target: a user pairing that contradicts proximity (the user's word still counts, and its target is taken)
        guess[0] = {builts[0].vid_of[guess_pn]: builts[1].vid_of[guess_target or guess_pn]}
    ts = fs.time_series.TimeSeries(frames, cm=cm) if default_guess else fs.time_series.TimeSeries(frames, cm=cm, initial_guess=guess)
    obs = []
    for k in range(nframes - 1):
        m = ts.mapping[k]
        if m is None:
            obs.append(Ob(f"frames-{k}-{k + 1}-are-compatible-under-small-motion", box > 0.03))
            continue
        e0 = {builts[k].vid_of[pn] for pn in ends}
        e1 = {builts[k + 1].vid_of[pn] for pn in ends}
        vals = [v for v in m.values() if v is not None]
        ok1 = set(m.keys()) <= e0 and set(vals) <= e1 and len(vals) == len(set(vals))
        if guess_pn and k == 0:
            ok1 = ok1 and m.get(builts[0].vid_of[guess_pn]) == builts[1].vid_of[guess_target or guess_pn]
        obs.append(Ob(f"map-{k}-is-an-injective-map-between-interface-end-points-honouring-the-guess", ok1))
        if box <= 0.0031 and not guess_target:
            true = all(m.get(builts[k].vid_of[pn]) == builts[k + 1].vid_of[pn] for pn in ends)
            obs.append(Ob(f"map-{k}-sends-every-junction-to-its-true-successor", true))
    if box <= 0.0031 and not guess_target and all(ts.mapping[k] is not None for k in range(nframes - 1)):
        rt = True
        for pn in ends:
            v0 = builts[0].vid_of[pn]
            fwd = ts.get_point_id_by_map(v0, 0, nframes - 1)
            back = ts.get_point_id_by_map(fwd, nframes - 1, 0)
            rt = rt and fwd == builts[nframes - 1].vid_of[pn] and back == v0
        obs.append(Ob("forward-then-backward-returns-the-starting-vertex", rt))
    return obs


def jobs(tier):
    js = []
    quick = tier == "quick"
    for topo in (("T3",) if quick else ("T3", "K3-n0")):
        for perm in (("rev", "der") if quick else ("id", "rev", "gap", "der")):
            for guess in (None, "P1") if topo == "T3" else (None,):
                js.append(Job(f"small-motion-{topo}-{perm}-guess={guess}", "c12:track",
                              dict(topo=topo, perm=perm, box=0.003, cm=False, guess_pn=guess, nframes=2),
                              budget_s=2400, max_paths=2000, weight=3, opts=dict(prune_minmax=True)))
    # a user pairing that contradicts proximity: its target must still be taken (injectivity), and a three-frame series with
    # a different numbering in every frame (composition order of the backward lookup)
    js.append(Job("contradicting-guess-T3-rev", "c12:track", dict(topo="T3", perm="rev", box=0.003, cm=False, guess_pn="P1", guess_target="P2"),
                  budget_s=2400, max_paths=2000, weight=3, opts=dict(prune_minmax=True)))
    js.append(Job("contradicting-guess-to-id-0-T3-id", "c12:track", dict(topo="T3", perm="id", box=0.003, cm=False, guess_pn="P1", guess_target="@id0"),
                  budget_s=2400, max_paths=2000, weight=3, opts=dict(prune_minmax=True)))
    js.append(Job("three-frames-default-guess-T3-der", "c12:track", dict(topo="T3", perm="der", box=0.003, cm=False, guess_pn=None, nframes=3,
                                                                        still_last=True, default_guess=True),
                  budget_s=2400, max_paths=4000, weight=6, opts=dict(prune_minmax=True)))
    js.append(Job("small-motion-T3-rev-small-length-unit", "c12:track", dict(topo="T3", perm="rev", box=0.003, cm=False, guess_pn="P1", scale=0.01),
                  budget_s=2400, max_paths=2000, weight=3, opts=dict(prune_minmax=True)))
    if True:
        js.append(Job("three-frames-T3-der-guess=P1", "c12:track", dict(topo="T3", perm="der", box=0.003, cm=False, guess_pn="P1", nframes=3, still_last=True),
                      budget_s=2400, max_paths=4000, weight=6, opts=dict(prune_minmax=True)))
    if not quick:
        # displacements reaching beyond the first search radius (0.5% of the extent): the search forks on every comparison
        js.append(Job("beyond-first-radius-T3-rev", "c12:track", dict(topo="T3", perm="rev", box=0.0055, cm=False, guess_pn=None),
                      budget_s=3000, max_paths=20000, weight=10, opts=dict(fork_timeout_ms=3000, prune_minmax=True)))
    return js
