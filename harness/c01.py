"""C01 -- static inference recovers the tensions of any tissue in force balance.

Decided as a chain (DESIGN.md section 3/C01); every link is a solver query on the real code:
  O1  coefficients are the true unit tangents            -> C02-A (re-run here for the finding regions) and C02-B
  O2  truth solves the system handed to the back-end, and the back-end's answer *is* the truth:
        - exact-inversion path: A x = b and regularity instantiated at x - truth  =>  x = truth
        - fallback / lsq_linear: KKT point of a consistent convex problem has zero residual (proved by z3 through the
          lemma chain of harness.solving.kkt_zero_residual), then uniqueness instantiated at x - truth
  O3  write-back                                        -> also asserted here on the reported values
  O4  resampling keeps interfaces exact arc samples      -> C11
"""
import numpy as np

from symx.runner import Job
from symx.harness import Ob
from symx import stubs
from harness import c02
from harness.solving import build_case, solve, last, kkt_zero_residual

PROPERTY = "C01"

META = dict(
    explanation="Equilibrium = symbolic positive tensions T with sum_e T_e u(e,j) = 0 at every used junction; tangents u are symbolic "
                "unit vectors (their correctness is C02's obligation, re-run here on 3-point arcs).  The reported values are compared "
                "with E*T/sum(T) for every such configuration.",
    bounds=dict(tissues="quick: T3 (3x4 rectangular: fallback), K3-n0; thorough adds K3 (7x7 square: inversion path, both inverse outcomes; 25 min)", methods="default, lsq_linear, lsq",
                arcs="3 points per interface for the tangent link (C02 covers up to 9)"),
    outside=["numerical tolerance of the back-ends", "exactly collinear >= 3-point interfaces (MINPACK)", "tissues beyond the catalogue",
             "mesh resampling leg: see C11 (kept points are a subsequence including both ends)"],
    assumptions=["the property's uniqueness hypothesis null(M) = span(T), instantiated at reported - truth",
                 "exact-inversion path: np.linalg.inv succeeded => augmented matrix regular (instantiated at reported - truth)",
                 "lsq_linear: unique solvability of the bordered normal system under the first hypothesis (trusted mathematics, see harness)",
                 "nnls / lsq_linear / lmfit return a KKT point", "inverse: A x = b", "tangent stub contract (C02-A)"],
    trusted=["z3"],
)


def recover(env, topo, method, inv_outcomes="both", pre_limit=None, light=False):
    stubs.OPTS["inv_outcomes"] = inv_outcomes
    c = build_case(env, topo)
    spec = c.spec
    internal = c.internal
    T = {ln: env.real(f"T_{ln}") for ln in internal}
    for ln in internal:
        env.assume(T[ln] > 0)
        env.hint_positive(f"T_{ln}")
        env.hint_value(f"T_{ln}", 1.0)
    used = spec.used_junctions()
    for pn in used:
        fx, fy = 0, 0
        for ln in spec.lines_at(pn):
            if ln in internal:
                u = c.vs.u(ln, pn)
                fx = fx + T[ln] * u[0]
                fy = fy + T[ln] * u[1]
                env.assume(u[0] != 0, soft=True)
                env.assume(u[1] != 0, soft=True)
        env.assume(env.eq(fx, 0))
        env.assume(env.eq(fy, 0))
    kw = dict(allow_negatives=False)
    if method:
        kw["method"] = method
    err, warns = solve(c, build_kw=dict(angle_limit=np.inf),
                       pre_build_kw=None if pre_limit is None else dict(angle_limit=pre_limit), **kw)
    c.vs.restore()
    obs = [Ob("solve-does-not-raise", err is None, note=f"{type(err).__name__}: {err}" if err else None)]
    if err is not None:
        return obs
    if light:
        # only: an earlier build with another angle limit on the same object leaves no trace in the next one
        order = [tuple(be.get_vertices_ids()) for be in c.frame.internal_big_edges]
        obs.append(Ob("earlier-angle-limited-build-leaves-no-trace",
                      len(c.fm.deletes) == 0 and [tuple(e) for e in c.fm.big_edges_to_use] == order
                      and env.conj([c.frame.forces[i] >= 0 for i in range(len(order))])))
        return obs
    n = len(c.cols)
    E = n
    S = sum((T[ln] for ln in c.cols[1:]), T[c.cols[0]])
    forces = c.frame.forces
    inv, nn, ll, lm = last("inv"), last("nnls"), last("lsq_linear"), last("lmfit")
    if method == "lsq_linear":
        src = ll
    elif method == "lsq":
        src = nn if nn is not None else lm
    else:
        src = nn if nn is not None else inv
    if src is lm and lm is not None:
        A, b = np.asarray(lm["args"][0], dtype=object), list(np.asarray(lm["args"][1], dtype=object).reshape(-1))
    else:
        A, b = np.asarray(src["A"], dtype=object), list(src["b"])
    x = list(src["x"])
    # Normalisation: scaling an equilibrium tension vector by a positive factor gives an equilibrium vector with the same
    # T/mean(T), so it is enough to quantify over those with sum(T) = E; then the truth is z = (T, 0).
    env.assume(env.eq(S, E))
    z = [T[ln] for ln in c.cols] + [0]
    truth_ok = env.true()
    for i in range(A.shape[0]):
        lhs = sum((A[i, j] * z[j] for j in range(1, n + 1)), A[i, 0] * z[0])
        truth_ok = truth_ok & env.eq(lhs, b[i])
    lemmas = []
    if method == "lsq_linear" and env.mode == "sym":
        # the bordered *normal* system: (M^T M T)_i = sum_k M_ki (M T)_k, each factor (M T)_k is zero by equilibrium
        M = c.M
        for k in range(M.shape[0]):
            mt = sum((M[k, j] * z[j] for j in range(1, n)), M[k, 0] * z[0])
            for i in range(n):
                lemmas += [M[k, i] * mt <= 0, M[k, i] * mt >= 0]
    if "r" in src:
        if src is lm:
            src = dict(src)
        lemmas += kkt_zero_residual(env, src, z)
    obs.append(Ob("truth-solves-the-system-handed-to-the-back-end", truth_ok, lemmas=list(lemmas[:2 * c.M.shape[0] * n] if method == "lsq_linear" else [])))
    # Hypotheses, each instantiated at d = reported - truth:
    #  * the property's: force balance determines the tensions up to scale, null(M) = span(T)  (M d_x = 0 => d_x || T)
    #  * exact-inversion path only: np.linalg.inv succeeded, so the augmented matrix is regular  (A d = 0 => d = 0)
    #  * lsq_linear only: the bordered *normal* system [[M^T M, 1], [1^T, 0]] is uniquely solvable under the first
    #    hypothesis (T^T(M^T M x + l 1) = l sum(T) forces l = 0, then |M x|^2 = 0) -- used as trusted mathematics
    region = None
    finding = None
    if env.mode == "sym":
        M = c.M
        diff = [x[j] - z[j] for j in range(n + 1)]
        Md = env.conj([env.eq(sum((M[k, j] * diff[j] for j in range(1, n)), M[k, 0] * diff[0]), 0) for k in range(M.shape[0])])
        par = env.conj([env.eq(diff[j] * z[0], diff[0] * z[j]) for j in range(1, n)])
        env.assume(env.implies(Md, par))
        Ad = env.conj([env.eq(sum((A[i, j] * diff[j] for j in range(1, n + 1)), A[i, 0] * diff[0]), 0) for i in range(A.shape[0])])
        if src is inv or method == "lsq_linear":
            env.assume(env.implies(Ad, env.conj([env.eq(d, 0) for d in diff])))
    else:
        # concrete replay: the property's hypothesis must really hold for the inputs (rank of M = n - 1)
        Mf = np.asarray(c.M, dtype=float)
        if Mf.size == 0 or np.linalg.matrix_rank(Mf, tol=1e-9) != n - 1:
            from symx.harness import PreconditionFailed
            raise PreconditionFailed("tensions are not determined up to scale for these inputs")
    if method != "lsq_linear" and src is not inv:
        # default / lsq on the augmented system [[M, 1], [1^T, 0]]: the multiplier column gives the non-negative problem a
        # spurious degree of freedom; the truth is recovered exactly when the back-end's multiplier is zero
        finding, region = "multiplier_column_spurious_freedom", (x[n] > 0)
        if env.mode == "sym" and "r" in src:
            # conditional lemma chain for the case multiplier <= 0 (cut, each step decided on its own)
            M = c.M
            lam0 = x[n] <= 0
            L = [env.implies(lam0, env.eq(x[n], 0))]
            for k in range(M.shape[0]):
                L.append(env.implies(lam0, env.eq(sum((M[k, j] * x[j] for j in range(1, n)), M[k, 0] * x[0]), 0)))
            for k in range(M.shape[0]):
                L.append(env.implies(lam0, env.eq(sum((M[k, j] * diff[j] for j in range(1, n)), M[k, 0] * diff[0]), 0)))
            L.append(env.implies(lam0, par))
            L.append(env.eq(sum(diff[1:n], diff[0]), 0))
            L.append(env.implies(lam0, env.eq(diff[0], 0)))
            for j in range(1, n):
                L.append(env.implies(lam0, env.eq(diff[j], 0)))
            lemmas = list(lemmas) + L
    rec = env.true() & (len(forces) == n)
    for j, ln in enumerate(c.cols):
        rec = rec & env.eq(forces[j], T[ln], tol=1e-5)
    obs.append(Ob("reported-is-true-tension-over-mean-true-tension", rec, lemmas=lemmas, finding=finding, region=region))
    # write-back (C10-O1) on the reported values
    wb = env.true()
    for j, be in enumerate(c.frame.internal_big_edges):
        wb = wb & env.eq(be.tension, forces[j])
    obs.append(Ob("tensions-written-back-to-their-interfaces", wb))
    return obs


def jobs(tier):
    js = []
    quick = tier == "quick"
    for topo in (("T3", "K3-n0") if quick else ("T3", "K3-n0", "K3")):       # K4 (9x9): exploration exceeds 40 min, outside
        for method in (None, "lsq_linear", "lsq"):
            if topo in ("K3", "K4") and method == "lsq_linear":
                continue        # bordered normal system of a 6-column matrix: polynomial blow-up, outside the bound
            if topo == "K4" and method:
                continue
            if quick and topo == "K3-n0" and method:
                continue
            js.append(Job(f"recover-{topo}-{method or 'default'}", "c01:recover", dict(topo=topo, method=method),
                          budget_s=2400, max_paths=400, weight=10 if topo != "T3" else 2,
                          opts=dict(final_timeout_ms=60000, cheap_forks=topo != "T3")))
    js.append(Job("recover-T3-default-after-an-angle-limited-build", "c01:recover", dict(topo="T3", method=None, pre_limit=2 * np.pi / 3, light=True),
                  budget_s=900, max_paths=400, weight=3, opts=dict(final_timeout_ms=60000, cheap_forks=True)))
    # O1 link (placement of the coefficients), re-run from C02-B on the smallest tissues
    for t in ("T3", "K3-n0", "T4"):
        js.append(Job(f"matrix-{t}", "c02:matrix", dict(topo=t, ignore_four=None), budget_s=600, max_paths=3000))
    # O1 link, re-run for the regions in which the tangent itself is wrong (known findings are printed under C01 too)
    for ccw in (True, False):
        for end in ("first", "last"):
            for fit in ("dlite", "taubinSVD"):
                js.append(Job(f"tangent-n3-{'ccw' if ccw else 'cw'}-{end}-{fit}", "c02:tangent",
                              dict(n=3, ccw=ccw, end=end, fit=fit), budget_s=300))
    js.append(Job("tangent-n3-ccw-first-dlite-radius=1e-07", "c02:tangent", dict(n=3, ccw=True, end="first", fit="dlite", radius=1e-7), budget_s=300))
    for end in ("first", "last"):
        js.append(Job(f"two-point-dlite-{end}", "c02:two_point", dict(fit="dlite", end=end), budget_s=300))
    return js
