"""C02 -- force-balance equations use outward unit tangents at the right junctions.

O-A   one interface, full symbolic arc geometry, real get_versor_from_vertex / get_vector_from_vertex /
      get_versor_sign / get_straight_edge_versor_from_vid / calculate_circle_center.
O-A2  two-point interfaces (circle fit degenerates to the midpoint).
O-fit the repo's own dlite objective is identically zero at the circumcentre (contract of the leastsq stub).
O-B   whole tissue, one symbolic unit tangent per (interface, junction): rows / columns / placement.
"""
import numpy as np

from symx.runner import Job
from symx.harness import Ob
from symx import stubs, tissue
from harness.common import catalogue, VersorStub

PROPERTY = "C02"

META = dict(
    explanation="O-A: arcs given by unit vectors on a circle (consecutive steps turn one way by < 90 deg), tangent oracle in closed "
                "form; O-B: catalogue tissues with one symbolic unit tangent per (interface, junction).",
    bounds=dict(points_per_interface="2..5 quick, 2..9 thorough", circle="centre 0 radius 1 (normalised) and free centre/radius for n=3",
                tissues="T3, T4, K3 (+K4, K4-n0 thorough), sub-tissues K3-n0, K3-hole, K4-n0, T3-c0, T4-c0, single", ignore_four="on/off"),
    outside=[">= 3 exactly collinear points (MINPACK iteration behaviour)", "topologies beyond the catalogue", "floating-point rounding"],
    assumptions=["scipy.optimize.leastsq / circle_fit.taubinSVD return the circumcentre of concyclic points (stub; the repo's objective is checked to vanish there)",
                 "two-point interfaces: leastsq returns its start value (zero residual there)",
                 "O-B: tangents are arbitrary unit vectors (contract proven by O-A); counterexamples of O-B are replayed with the tangent stub retained"],
    trusted=["z3 nonlinear real arithmetic", "numpy object-dtype semantics"],
)


def _interface(fs, pts, first_id=0):
    n = len(pts)
    vs = [fs.vertex.Vertex(first_id + i, p[0], p[1]) for i, p in enumerate(pts)]
    es = [fs.edge.SmallEdge(first_id + i, vs[i], vs[i + 1]) for i in range(n - 1)]
    for v in vs:
        v.ownCells = [0, 1]
    vs[0].ownCells = [0, 1, 2]
    vs[-1].ownCells = [0, 1, 3]
    be = fs.edge.BigEdge(first_id, vs)
    be._keep = es
    return be, vs


def _arc(env, n, ccw, free=False, radius=None):
    """n points on a circle; returns (points, unit vectors, centre, radius)."""
    cs = [env.unit(f"p{i}") for i in range(n)]
    for i in range(n - 1):
        (c0, s0), (c1, s1) = cs[i], cs[i + 1]
        cr = c0 * s1 - s0 * c1
        env.assume(cr > 0 if ccw else cr < 0)
        env.assume(c0 * c1 + s0 * s1 > 0)
    if free:
        ox, oy, r = env.real("ox"), env.real("oy"), env.real("r")
        env.assume(r > 0)
    elif radius is not None:
        from fractions import Fraction
        ox, oy, r = 0, 0, (Fraction(radius).limit_denominator(10 ** 12) if env.mode == "sym" else float(radius))
    else:
        ox, oy, r = 0, 0, 1
    pts = [(ox + r * c, oy + r * s) for c, s in cs]
    return pts, cs, (ox, oy), r


def tangent(env, n, ccw, end, fit, free=False, radius=None):
    import forsys as fs
    pts, cs, (ox, oy), r = _arc(env, n, ccw, free, radius)
    be, vs = _interface(fs, pts)
    stubs.register_circle(vs, ox, oy, r)
    if end == "first":
        j, k, sgn = 0, 1, (1 if ccw else -1)
    else:
        j, k, sgn = n - 1, n - 2, (-1 if ccw else 1)
    tx, ty = -sgn * cs[j][1], sgn * cs[j][0]            # closed-form unit tangent pointing along the arc
    dx, dy = cs[k][0] - cs[j][0], cs[k][1] - cs[j][1]    # first chord (direction only)
    versor = be.get_versor_from_vertex(vs[j].id, fit_method=fit)
    # the same interface after its vertices were moved in place (as TimeSeries does with cm=True): nothing may be cached
    ta, tb = env.real("move_a"), env.real("move_b")
    for v in vs:
        v.x = v.x + ta
        v.y = v.y + tb
    stubs.register_circle(vs, ox + ta, oy + tb, r)
    versor_moved = be.get_versor_from_vertex(vs[j].id, fit_method=fit)
    mism_x = (tx != 0) & (((dx >= 0) & (tx < 0)) | ((dx < 0) & (tx > 0)))
    mism_y = (ty != 0) & (((dy >= 0) & (ty < 0)) | ((dy < 0) & (ty > 0)))
    region = mism_x | mism_y
    good = env.eq(versor[0], tx) & env.eq(versor[1], ty)
    return [Ob("versor-is-outward-unit-tangent", good, finding="tangent_chord_quadrant_mismatch", region=region),
            Ob("versor-has-unit-norm", env.eq(versor[0] * versor[0] + versor[1] * versor[1], 1)),
            Ob("versor-unchanged-after-the-vertices-were-translated-in-place",
               env.eq(versor_moved[0], versor[0]) & env.eq(versor_moved[1], versor[1])),
            Ob("versor-parallel-to-tangent", env.eq(versor[0] * ty - versor[1] * tx, 0),
               finding="tangent_chord_quadrant_mismatch", region=region)]


def two_point(env, fit, end="first"):
    import forsys as fs
    x0, y0, x1, y1 = env.real("x0"), env.real("y0"), env.real("x1"), env.real("y1")
    env.assume((x0 != x1) | (y0 != y1))
    be, vs = _interface(fs, [(x0, y0), (x1, y1)])
    if end == "first":
        versor = be.get_versor_from_vertex(vs[0].id, fit_method=fit)
        dx, dy = x1 - x0, y1 - y0
    else:
        versor = be.get_versor_from_vertex(vs[1].id, fit_method=fit)
        dx, dy = x0 - x1, y0 - y1
    L = np.sqrt(dx * dx + dy * dy)
    good = env.eq(versor[0] * L, dx) & env.eq(versor[1] * L, dy)
    region = (dx * dx != dy * dy)
    return [Ob("two-point-versor-is-chord-direction-away-from-the-junction", good, finding="two_point_interface", region=region)]


def objective_zero(env, n, free):
    """the dlite objective evaluated at the generating circle's centre is the zero vector."""
    import forsys as fs
    import forsys.virtual_edges as ve
    import scipy.optimize as sco
    pts, cs, (ox, oy), r = _arc(env, n, True, free)
    dt = object if env.mode == "sym" else float
    xs = np.array([p[0] for p in pts], dtype=dt)
    ys = np.array([p[1] for p in pts], dtype=dt)
    seen = {}
    saved = sco.leastsq

    def grab(f, x0, *a, **k):
        seen["f"] = f
        seen["x0"] = x0
        return np.array([ox, oy], dtype=dt), 1
    sco.leastsq = grab
    try:
        centre = ve.dlite_circle_method(xs, ys)
    finally:
        sco.leastsq = saved
    res = seen["f"]((ox, oy))
    obs = [Ob(f"objective-residual-{i}-zero-at-centre", env.eq(res[i], 0)) for i in range(n)]
    obs.append(Ob("fit-returns-leastsq-result", env.eq(centre[0], ox) & env.eq(centre[1], oy)))
    return obs


# ------------------------------------------------------------------------------------------------ O-B
def _frame(fs, spec, **kw):
    b = tissue.build(spec, fs, **kw)
    fr = fs.frames.Frame(0, b.vertices, b.edges, b.cells, time=0)
    return b, fr


def filter_deviates(env, spec, internal, ufun, ignore_four):
    """exact condition under which the shipped junction filter deviates from the property (recorded finding)."""
    def nz(v):
        if env.mode == "sym":
            from symx.core import SymReal, lift
            import z3
            return SymReal(z3.If(lift(v) != 0, z3.RealVal(1), z3.RealVal(0)))
        return 1 if v != 0 else 0
    deviates = False
    for pn in spec.points:
        ls = [ln for ln in spec.lines_at(pn) if ln in internal]
        if len(spec.cells_of_point(pn)) < 3 or not ls:
            continue
        k = len(ls)
        nx = sum((nz(ufun(ln, pn)[0]) for ln in ls[1:]), nz(ufun(ls[0], pn)[0]))
        ny = sum((nz(ufun(ln, pn)[1]) for ln in ls[1:]), nz(ufun(ls[0], pn)[1]))
        expected = k >= 3 and not (bool(ignore_four) and k >= 4)
        shipped = ((nx >= 3) | (ny >= 3)) & (True if not ignore_four else ((nx < 4) & (ny < 4)))
        deviates = deviates | (shipped != expected)
    return deviates


def matrix(env, topo, ignore_four, n_int=3):
    import forsys as fs
    import forsys.fmatrix as fmx
    spec = catalogue(topo, **({} if topo == "single" else dict(n_spoke=n_int, n_border=2)))
    b, fr = _frame(fs, spec)
    vs = VersorStub(env, fs, b)
    try:
        fm = fmx.ForceMatrix(fr, "none", "none", {"ignore_four": ignore_four} if ignore_four is not None else {}, {},
                             angle_limit=np.inf)
    finally:
        vs.restore()
    M = fm.matrix
    internal = spec.internal_lines()
    cols = [tissue.line_of_big_edge(b, e)[0] for e in fm.big_edges_to_use]
    rows = {b.point_of[v]: r for v, r in fm.map_vid_to_row.items()}
    used = spec.used_junctions(ignore_four=bool(ignore_four))
    obs = []
    obs.append(Ob("one-column-per-internal-interface", sorted(cols) == sorted(internal) and M.shape[1] == len(internal)))
    # Region of the recorded finding, stated as the exact condition under which the shipped filter deviates from the
    # property (not merely "some component is zero"): with k internal interfaces at a junction shared by >= 3 cells and
    # nx / ny non-zero x / y components among them,
    #   expected rows  <=>  k >= 3 and not (ignore_four and k >= 4)
    #   shipped filter <=>  (nx >= 3 or ny >= 3) and (not ignore_four or (nx < 4 and ny < 4))
    deviates = filter_deviates(env, spec, internal, lambda ln, pn: vs.u(ln, pn), ignore_four)
    obs.append(Ob("rows-exactly-for-junctions-of-3-cells-and-3-interfaces",
                  sorted(rows) == sorted(used) and M.shape[0] == 2 * len(used)
                  and sorted(rows.values()) == list(range(0, 2 * len(used), 2)),
                  finding="zero_tangent_component", region=deviates))
    ok = env.true()
    for pn, r0 in rows.items():
        for ci, ln in enumerate(cols):
            if ln in spec.lines_at(pn) and ln in internal:
                u = vs.u(ln, pn)
                ok = ok & env.eq(M[r0, ci], u[0]) & env.eq(M[r0 + 1, ci], u[1])
            else:
                ok = ok & env.eq(M[r0, ci], 0) & env.eq(M[r0 + 1, ci], 0)
    obs.append(Ob("coefficients-are-the-tangents-at-their-junction-zero-elsewhere", ok))
    return obs


def jobs(tier):
    js = []
    ns = (3, 4, 5) if tier == "quick" else (3, 4, 5, 7, 9)
    for n in ns:
        for ccw in (True, False):
            for end in ("first", "last"):
                for fit in ("dlite", "taubinSVD"):
                    js.append(Job(f"tangent-n{n}-{'ccw' if ccw else 'cw'}-{end}-{fit}", "c02:tangent",
                                  dict(n=n, ccw=ccw, end=end, fit=fit), budget_s=300))
    # the same arc in a tiny / huge length unit (concrete radius): tangents are scale free
    for radius in (1e-7, 1e5):
        js.append(Job(f"tangent-n3-ccw-first-dlite-radius={radius}", "c02:tangent", dict(n=3, ccw=True, end="first", fit="dlite", radius=radius),
                      budget_s=300))
    for fit in ("dlite", "taubinSVD"):
        for end in ("first", "last"):
            js.append(Job(f"two-point-{fit}-{end}", "c02:two_point", dict(fit=fit, end=end), budget_s=300))
    for n in ((3, 4) if tier == "quick" else (3, 4, 5, 7)):
        js.append(Job(f"objective-zero-n{n}", "c02:objective_zero", dict(n=n, free=False), budget_s=300))
    if tier == "thorough":
        js.append(Job("objective-zero-n3-free", "c02:objective_zero", dict(n=3, free=True), budget_s=600))
        for ccw in (True, False):
            js.append(Job(f"tangent-free-n3-{'ccw' if ccw else 'cw'}", "c02:tangent", dict(n=3, ccw=ccw, end="first", fit="dlite", free=True), budget_s=900, weight=5))
    topos = ["T3", "T4", "K3", "K3-n0", "K3-hole", "T3-c0", "T4-c0", "single"]
    if tier == "thorough":
        topos += ["K4", "K4-n0"]       # R7 (12 columns, 6 junctions): exploration exceeds the budget, outside
    for t in topos:
        for ig in (None, False, True):
            if ig is False and tier == "quick":
                continue
            js.append(Job(f"matrix-{t}-ignore4={ig}", "c02:matrix", dict(topo=t, ignore_four=ig), budget_s=600,
                          max_paths=3000, weight=4 if t in ("K4", "R7", "K3") else 1))
    return js
