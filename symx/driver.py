"""bin/check entry point: run all jobs of one property, apply known findings, write evidence, set exit code.

exit 0: every obligation unsat on every path (outside open known-finding regions)
exit 1: a reproduced counterexample outside every listed region  -> VIOLATION line
exit 2: inconclusive / harness error (never reported as success, never as a violation)
"""
import argparse
import hashlib
import importlib
import json
import os
import subprocess
import sys
import time

VERIF = os.path.dirname(os.path.dirname(os.path.abspath(__file__)))
sys.path.insert(0, VERIF)

from symx.runner import Job, run_jobs  # noqa: E402


def load_findings():
    p = os.path.join(VERIF, "known_findings.json")
    if not os.path.exists(p):
        return {}
    data = json.load(open(p))
    return {f["id"]: f for f in data.get("findings", [])}


def main(argv=None):
    ap = argparse.ArgumentParser()
    ap.add_argument("property")
    ap.add_argument("--tier", default=os.environ.get("VERIF_TIER", "quick"))
    ap.add_argument("--only", default=None, help="substring filter on job names (development)")
    ap.add_argument("--no-evidence", action="store_true")
    ap.add_argument("--replay", default=None)
    a = ap.parse_args(argv)
    pid = a.property.upper()
    tier = "thorough" if a.tier.startswith("t") else "quick"
    seed = int(os.environ.get("VERIF_SEED", "0") or 0)
    mod = importlib.import_module("harness." + pid.lower())
    if a.replay:
        return replay(mod, pid, a.replay)
    t0 = time.time()
    findings = load_findings()
    open_ids = {fid for fid, f in findings.items() if f.get("status") == "open" and pid in f.get("property", [])}
    jobs = mod.jobs(tier)
    if tier == "thorough":
        for j in jobs:
            j.opts = dict(j.opts, cross_check=True)      # final unsat verdicts are re-decided by cvc5 (first 40 per job)
    if a.only:
        jobs = [j for j in jobs if a.only in j.name]
    extra = []
    if hasattr(mod, "extra_checks"):
        extra = mod.extra_checks(tier)   # e.g. CrossHair / SMT-LIB lemma runs: list of result dicts

    def log(idx, job, r):
        obl = r["obligations"]
        nu = sum(o["unsat"] for o in obl.values())
        ns = sum(o["sat"] for o in obl.values())
        nk = sum(o["unknown"] for o in obl.values())
        st = r.get("stats", {})
        print(f"  job {job.name}: paths={st.get('paths', '?')} unsat={nu} sat={ns} unknown={nk} "
              f"cex={len(r['cex'])} wit={len(r['witnesses'])} errors={len(r['errors'])} {r['wall_s']:.1f}s", flush=True)
        for e in r["errors"]:
            print("    ERROR " + e.replace("\n", "\n      "), flush=True)

    print(f"[{pid}] tier={tier} jobs={len(jobs)} open findings={sorted(open_ids)}", flush=True)
    results = run_jobs(jobs, {fid: findings[fid] for fid in open_ids}, log=log)
    results += extra

    violations = []
    inconclusive = []
    known_seen = {}
    tot = dict(unsat=0, sat=0, unknown=0, trivial=0)
    n_obl = 0
    n_dis = 0
    solver_s = 0.0
    max_q = 0.0
    cross = {}
    paths = 0
    entered, shims, stubs = set(), {}, {}
    samples = []
    hashes = set()
    n_queries_hashed = 0
    for r in results:
        if r:
            hs = r.get("hashes", [])
            n_queries_hashed += len(hs)
            hashes |= {r["job"]["name"] + ":" + h for h in hs}
    for r in results:
        if r is None:
            inconclusive.append("job returned nothing")
            continue
        for e in r["errors"]:
            inconclusive.append(f"{r['job']['name']}: {e.splitlines()[0]}")
        for name, o in r["obligations"].items():
            n_obl += 1
            for k in tot:
                tot[k] += o.get(k, 0)
            if o["unknown"]:
                inconclusive.append(f"{r['job']['name']}/{name}: {o['unknown']} unknown verdict(s)")
            if o["sat"] == 0 and o["unknown"] == 0:
                n_dis += 1
        for cx in r["cex"]:
            if cx["reproduced"]:
                violations.append(cx)
            else:
                inconclusive.append(f"{r['job']['name']}/{cx['obligation']}: counterexample did not reproduce on the real code ({cx.get('detail')})")
        for w in r["witnesses"]:
            if w["reproduced"]:
                known_seen.setdefault(w["finding"], w)
        if r["reach"].get("witness_mismatch"):
            for mm in r["reach"]["witness_mismatch"]:
                print(f"  WARNING witness mismatch in {r['job']['name']}: {json.dumps(mm, default=str)[:400]}", flush=True)
        st = r.get("stats") or {}
        solver_s += st.get("solver_s", 0.0)
        max_q = max(max_q, st.get("max_query_s", 0.0))
        for kk, vv in (st.get("cross") or {}).items():
            cross[kk] = cross.get(kk, 0) + vv
        paths += st.get("paths", 0)
        entered |= set(r.get("entered", []))
        for k, v in r.get("shims", {}).items():
            shims[k] = shims.get(k, 0) + v
        for k, v in r.get("stubs", {}).items():
            stubs[k] = stubs.get(k, 0) + v
        samples += r.get("samples", [])[:1]
        if r.get("extra_kind"):
            samples += r.get("samples", [])[:2]

    # obligations whose sat verdicts are all covered by reproduced known-finding witnesses are handled in the worker
    for fid, w in sorted(known_seen.items()):
        f = findings[fid]
        print(f"KNOWN-FINDING: property={pid} {fid}: {f['what']}", flush=True)

    if cross.get("disagree"):
        inconclusive.append(f"cvc5 answered sat on {cross['disagree']} queries that z3 answered unsat")
    rc = 0
    os.makedirs(os.path.join(VERIF, "replays", pid), exist_ok=True)
    seen_sig = set()
    for cx in violations:
        sig = (cx["job"]["name"], cx["obligation"])
        if sig in seen_sig:
            continue
        seen_sig.add(sig)
        h = hashlib.sha1(json.dumps(cx, sort_keys=True, default=str).encode()).hexdigest()[:10]
        path = os.path.join(VERIF, "replays", pid, f"{cx['job']['name']}-{cx['obligation']}-{h}.json".replace("/", "_").replace(" ", "_"))
        json.dump(dict(property=pid, **cx), open(path, "w"), indent=1, default=str)
        print(f"VIOLATION property={pid} replay={path}", flush=True)
        print(f"  obligation {cx['obligation']} in job {cx['job']['name']}: {cx.get('detail') or ''} inputs={json.dumps(cx['inputs'], default=str)[:300]}", flush=True)
        rc = 1
    if rc == 0 and inconclusive:
        rc = 2
        for m in inconclusive[:20]:
            print(f"INCONCLUSIVE {pid}: {m}", flush=True)
    wall = time.time() - t0
    if not a.no_evidence and not a.only:
        meta = getattr(mod, "META", {})
        ev = dict(
            property_id=pid, tier=tier, seed=seed, level="other",
            coverage=dict(
                explanation=("Bounded symbolic execution of the real forsys functions (symx: z3 Real proxies through "
                             "dtype=object numpy arrays, fork at every symbolic branch, one re-execution per path) and SMT "
                             "decision (z3 %s, nonlinear real arithmetic) of the negated obligation on every path; unsat on all "
                             "paths = holds for every value inside the bounds. " % _z3v()) + meta.get("explanation", ""),
                functions_encoded=sorted(entered),
                bounds=meta.get("bounds", {}),
                outside_bounds=meta.get("outside", []),
                obligations=n_obl, discharged=n_dis,
                evaluations=tot["unsat"] + tot["sat"] + tot["unknown"] + tot["trivial"],
                smt_queries=tot["unsat"] + tot["sat"] + tot["unknown"],
                distinct_nontrivial=(len(hashes) + sum(o.get("unsat", 0) + o.get("sat", 0) for r in results if r and r.get("extra_kind") for o in r["obligations"].values())),
                rule=("one evaluation = one obligation instance on one path (job x path x obligation), decided either by a final SMT query / CrossHair / SMT-LIB verdict or syntactically by z3's simplifier; distinct_nontrivial counts only solver-decided ones: distinct "
                      "(job, obligation, negated-claim term) after z3 simplification, hashed; obligations whose negation simplifies to false "
                      "(identity between the code's term and the oracle's term) are decided syntactically, counted separately (%d) and not "
                      "included in distinct_nontrivial" % tot["trivial"]),
                decided_by_term_identity=tot["trivial"],
                queries=tot, paths=paths, jobs=len(results), solver_seconds=round(solver_s, 2), slowest_query_seconds=round(max_q, 2),
                per_query_timeout_seconds=60,
                cvc5_cross_check=({k: (round(v, 1) if isinstance(v, float) else v) for k, v in cross.items()} if cross else "thorough tier only"),
                stubs_hit=stubs, shims_hit=shims,
                reachability=dict(jobs_with_satisfiable_path=sum(1 for r in results if r and r["reach"].get("paths_with_model", 0) > 0 or (r and r.get("extra_kind"))),
                                  witness_runs_on_real_code=sum(r["reach"].get("witness_checked", 0) for r in results if r),
                                  witness_mismatches=sum(len(r["reach"].get("witness_mismatch", [])) for r in results if r)),
                known_findings_reproduced=sorted(known_seen),
                samples=samples[:6] or [dict(note="no non-trivial sample recorded")],
                trusted_base=meta.get("trusted", []),
                inconclusive=inconclusive[:20],
            ),
            assumptions=meta.get("assumptions", []),
            wall_s=round(wall, 2),
            violations=len(seen_sig),
        )
        os.makedirs(os.path.join(VERIF, "evidence"), exist_ok=True)
        json.dump(ev, open(os.path.join(VERIF, "evidence", f"{pid}.json"), "w"), indent=1, default=str)
    print(f"[{pid}] obligations={n_obl} discharged={n_dis} queries={tot} paths={paths} solver={solver_s:.1f}s slowest_query={max_q:.1f}s wall={wall:.1f}s exit={rc}", flush=True)
    return rc


def _z3v():
    import z3
    return z3.get_version_string()


def replay(mod, pid, path):
    from symx import shim, stubs, runner
    case = json.load(open(path))
    shim.install()
    stubs.install()
    func = runner._resolve(case["job"]["func"])
    out = runner.run_concrete(func, case["job"]["params"], case["inputs"], 1e-6)
    print(json.dumps(out, indent=1, default=str))
    bad = out.get(case["obligation"]) is False
    print("REPRODUCED" if bad else "not reproduced")
    return 1 if bad else 0


if __name__ == "__main__":
    sys.exit(main())
