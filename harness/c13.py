"""C13 -- velocities are finite differences of tracked vertices over real elapsed time.

Three-frame series of a catalogue tissue; every interface end point has symbolic coordinates in every frame, the three
time stamps are symbolic (t0 < t1 < t2), every frame numbers its vertices differently, the correspondence is supplied
through initial_guess (the search itself is C12's subject), one tracked vertex has no partner.
O1  real TimeSeries.calculate_velocity / get_point_id_by_map
O2  real ForceMatrix.set_velocity_matrix, ForSys.get_system_velocity_per_frame
"""
import numpy as np

from symx.runner import Job
from symx.harness import Ob
from symx import tissue
from harness.common import catalogue, VersorStub

PROPERTY = "C13"

META = dict(
    explanation="Positions and time stamps are symbols, so a wrong interval, a wrong frame's time stamp or a velocity written into "
                "another junction's rows is a different term, not a small numerical deviation.",
    bounds=dict(series="3 frames (4 thorough)", tissues="T3 (K4-n0 thorough; K3 with adimensional velocities was not decided within 60 s)", renumberings="identity, reversal, offset with gaps, a derangement",
                options="b_matrix none/velocity, adimensional_velocity on/off, velocity_normalization symbolic"),
    outside=["series longer than 4 frames", "accelerations", "the tracking search (C12)"],
    assumptions=["builtins min/max on symbols become If-terms (bounding-box test of create_mapping)", "tangent stub (irrelevant for the right-hand side)"],
    trusted=["z3"],
)

PERMS = {
    "id": lambda n: (lambda i: i),
    "rev": lambda n: (lambda i: n - 1 - i),
    "gap": lambda n: (lambda i: 3 * i + 7),
    "der": lambda n: (lambda i: (i * 5 + 3) % n if n % 5 else (i + 2) % n),
}


def series(env, topo, perms, nframes=3, lost=None, lost_k=0):
    import forsys as fs
    spec0 = catalogue(topo, n_spoke=2, n_border=2)
    ends = set()
    for ln, pts in spec0.lines.items():
        ends.add(pts[0])
        ends.add(pts[-1])
    times = [env.real(f"t{k}") for k in range(nframes)]
    for k in range(nframes - 1):
        env.assume(times[k] < times[k + 1])
        env.hint_value(f"t{k}", float(k))
    env.hint_value(f"t{nframes - 1}", float(nframes - 1))
    builts, frames, pos = {}, {}, {}
    n = len(spec0.points)
    for k in range(nframes):
        spec = spec0.copy()
        coords = {}
        for pn in spec.points:
            if pn in ends:
                coords[pn] = (env.real(f"x{k}_{pn}"), env.real(f"y{k}_{pn}"))
                env.hint_value(f"x{k}_{pn}", spec.points[pn][0] + 0.01 * k)
                env.hint_value(f"y{k}_{pn}", spec.points[pn][1] - 0.01 * k)
            else:
                coords[pn] = spec.points[pn]
        pos[k] = coords
        b = tissue.build(spec, fs, coords=coords, vid=PERMS[perms[k]](n))
        builts[k] = b
        frames[k] = fs.frames.Frame(k, b.vertices, b.edges, b.cells, time=times[k])
    guess = {}
    for k in range(nframes - 1):
        guess[k] = {builts[k].vid_of[pn]: (None if (lost == pn and k == lost_k) else builts[k + 1].vid_of[pn]) for pn in ends}
    guess[nframes - 1] = {}
    return fs, spec0, ends, times, builts, frames, pos, guess


def velocity(env, topo, perms, lost, lost_k=0):
    fs, spec, ends, times, builts, frames, pos, guess = series(env, topo, perms, lost=lost, lost_k=lost_k)
    F = fs.ForSys(frames, cm=False, initial_guess=guess)
    ts = F.mesh
    if any(m is None for m in ts.mapping.values()):
        return []          # bounding boxes differ by more than 10%: frames declared incompatible (not this property's case)
    nf = len(frames)
    obs = []
    for t in range(nf):
        ok = env.true()
        for pn in sorted(ends):
            v = ts.calculate_velocity(builts[t].vid_of[pn], t)
            other = t + 1 if t < nf - 1 else t - 1
            link = t if t < nf - 1 else nf - 2       # the correspondence between frames link and link + 1 is the one used
            partner = not (lost == pn and link == lost_k)
            if partner:
                dt = times[other] - times[t]
                ok = ok & env.eq(v[0] * dt, pos[other][pn][0] - pos[t][pn][0]) & env.eq(v[1] * dt, pos[other][pn][1] - pos[t][pn][1])
            else:
                ok = ok & env.eq(v[0], 0) & env.eq(v[1], 0)
        obs.append(Ob(f"velocity-at-frame-{t}-is-displacement-to-the-tracked-partner-over-elapsed-time", ok))
    return obs


def rhs(env, topo, perms, t, adim, mode, lost=None, lost_k=0):
    fs, spec, ends, times, builts, frames, pos, guess = series(env, topo, perms, lost=lost, lost_k=lost_k)
    F = fs.ForSys(frames, cm=False, initial_guess=guess)
    if any(m is None for m in F.mesh.mapping.values()):
        return []
    vs = VersorStub(env, fs, builts)
    # general position of the (irrelevant) tangents, and every used junction moves between the two frames involved
    # (with all junctions at rest the adimensional normalisation divides by a zero mean speed: outside the property)
    nf0 = len(frames)
    oth = t + 1 if t < nf0 - 1 else t - 1
    for pn in spec.used_junctions():
        for fk in range(nf0):
            for ln in spec.lines_at(pn):
                u = vs.u(ln, pn, fk)
                env.assume(u[0] != 0, soft=True)
                env.assume(u[1] != 0, soft=True)
        for k in range(nf0 - 1):
            if lost == pn and k == lost_k:
                continue
            env.assume((pos[k + 1][pn][0] != pos[k][pn][0]) | (pos[k + 1][pn][1] != pos[k][pn][1]))
    try:
        F.build_force_matrix(when=t)
        fm = F.force_matrices[t]
        norm = env.real("vnorm")
        kw = dict(b_matrix=mode, adimensional_velocity=adim, velocity_normalization=norm)
        b, ave = fm.set_velocity_matrix(F.mesh, **kw)
        sysv = F.get_system_velocity_per_frame() if (mode == "velocity" and adim) else None
    finally:
        vs.restore()
    nf = len(frames)
    other = t + 1 if t < nf - 1 else t - 1
    dt = times[other] - times[t]
    rows = {builts[t].point_of[v]: r for v, r in fm.map_vid_to_row.items()}
    used = spec.used_junctions()
    link = t if t < nf - 1 else nf - 2
    nopartner = lambda pn: lost == pn and link == lost_k
    obs = [Ob("one-row-pair-per-used-junction", sorted(rows) == sorted(used) and b.shape == (2 * len(used), 1))]
    speeds = []
    for pn in used:
        if nopartner(pn):
            speeds.append(0)          # no tracked partner: velocity zero, and it still counts in the mean
            continue
        dx, dy = pos[other][pn][0] - pos[t][pn][0], pos[other][pn][1] - pos[t][pn][1]
        speeds.append(np.sqrt(dx * dx + dy * dy) / abs(dt))
    mean = sum(speeds[1:], speeds[0]) / len(speeds)
    ok = env.true()
    for pn, r0 in rows.items():
        dx, dy = pos[other][pn][0] - pos[t][pn][0], pos[other][pn][1] - pos[t][pn][1]
        if nopartner(pn):
            dx, dy = 0, 0
        if mode != "velocity":
            ok = ok & env.eq(b[r0, 0], 0) & env.eq(b[r0 + 1, 0], 0)
        elif adim:
            ok = ok & env.eq(b[r0, 0] * dt * mean, dx * norm) & env.eq(b[r0 + 1, 0] * dt * mean, dy * norm)
        else:
            ok = ok & env.eq(b[r0, 0] * dt, dx * norm) & env.eq(b[r0 + 1, 0] * dt, dy * norm)
    obs.append(Ob("each-junction-velocity-is-the-rhs-of-its-own-two-rows", ok))
    if mode == "velocity" and adim:
        obs.append(Ob("second-return-value-is-the-mean-junction-speed", env.eq(ave, mean)))
        obs.append(Ob("system-velocity-of-the-frame-is-that-mean-speed", env.eq(sysv[t], mean) & (len(sysv) == nf)))
    else:
        obs.append(Ob("no-normalisation-speed-without-adimensional-velocities", env.eq(ave, 1)))
    if mode == "velocity":
        # the same built matrix asked again, in static mode: all zero (nothing of the dynamic call may linger)
        b2, ave2 = fm.set_velocity_matrix(F.mesh, b_matrix=None)
        z = env.true()
        for r in range(b2.shape[0]):
            z = z & env.eq(b2[r, 0], 0)
        obs.append(Ob("static-rhs-is-all-zero-also-after-a-dynamic-call-on-the-same-matrix", z & (b2.shape == b.shape) & env.eq(ave2, 1)))
    return obs


def jobs(tier):
    js = []
    quick = tier == "quick"
    combos = [("id", "rev", "gap"), ("der", "id", "rev")] if quick else [("id", "id", "id"), ("id", "rev", "gap"), ("der", "id", "rev"), ("gap", "der", "der")]
    for topo in (("T3",) if quick else ("T3", "K4-n0")):
        for perms in combos:
            for lost in (None, "P1"):
                js.append(Job(f"velocity-{topo}-{'-'.join(perms)}-lost={lost}", "c13:velocity", dict(topo=topo, perms=list(perms), lost=lost),
                              budget_s=900, max_paths=2000, opts=dict(cheap_forks=True), weight=2))
            for t in (0, 1, 2):
                for adim, mode in ((False, "velocity"), (True, "velocity"), (False, None)):
                    if quick and perms != combos[0] and not (adim and mode):
                        continue
                    js.append(Job(f"rhs-{topo}-{'-'.join(perms)}-t{t}-adim={adim}-{mode}", "c13:rhs",
                                  dict(topo=topo, perms=list(perms), t=t, adim=adim, mode=mode), budget_s=900, max_paths=2000,
                                  opts=dict(cheap_forks=True), weight=3))
    # a junction that loses its partner between the last two frames: zero velocity at the middle frame (forward) and at the
    # last frame (backward, inverted map), whatever id it carries
    for perms in combos[:2]:
        js.append(Job(f"velocity-T3-{'-'.join(perms)}-lost=P1-between-last-frames", "c13:velocity", dict(topo="T3", perms=list(perms), lost="P1", lost_k=1),
                      budget_s=900, max_paths=2000, opts=dict(cheap_forks=True), weight=2))
        js.append(Job(f"velocity-T3-{'-'.join(perms)}-lost=O-between-last-frames", "c13:velocity", dict(topo="T3", perms=list(perms), lost="O", lost_k=1),
                      budget_s=900, max_paths=2000, opts=dict(cheap_forks=True), weight=2))
    js.append(Job("rhs-T3-id-rev-gap-t2-adim=False-velocity-lost=O-between-last-frames", "c13:rhs",
                  dict(topo="T3", perms=["id", "rev", "gap"], t=2, adim=False, mode="velocity", lost="O", lost_k=1), budget_s=900, max_paths=2000,
                  opts=dict(cheap_forks=True), weight=3))
    # several used junctions, one of them without a tracked partner: its zero velocity still enters the mean speed
    js.append(Job("rhs-K4-n0-id-rev-gap-t0-adim=True-velocity-lost=J2", "c13:rhs",
                  dict(topo="K4-n0", perms=["id", "rev", "gap"], t=0, adim=True, mode="velocity", lost="J2"), budget_s=1200, max_paths=3000,
                  opts=dict(cheap_forks=True), weight=6))
    return js
