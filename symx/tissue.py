"""Catalogue of concrete topologies (DESIGN.md section 2.6) and a builder that creates Vertex / SmallEdge / Cell
through the real forsys constructors, in parser order.  Coordinates are whatever the harness puts into
spec.points (floats or SymReal); only the topology is fixed."""
import math


class Spec:
    def __init__(self, name):
        self.name = name
        self.points = {}      # point name -> (x, y)
        self.lines = {}       # line name -> [point names]
        self.cells = []       # list of (cell name, [(line name, +1|-1), ...])
        self.junctions = []   # names of points where >= 3 lines meet
        self.interfaces = {}  # line name -> (cell a, cell b) for lines separating two cells
        self.meta = {}

    def copy(self):
        s = Spec(self.name)
        s.points = dict(self.points)
        s.lines = {k: list(v) for k, v in self.lines.items()}
        s.cells = [(n, list(p)) for n, p in self.cells]
        s.junctions = list(self.junctions)
        s.interfaces = dict(self.interfaces)
        s.meta = dict(self.meta)
        return s

    def without_cells(self, names):
        s = self.copy()
        s.name = self.name + "-minus-" + "+".join(names)
        s.cells = [(n, p) for n, p in s.cells if n not in names]
        used = {ln for _, p in s.cells for ln, _ in p}
        s.lines = {k: v for k, v in s.lines.items() if k in used}
        usedp = {pn for v in s.lines.values() for pn in v}
        s.points = {k: v for k, v in s.points.items() if k in usedp}
        s.interfaces = {k: v for k, v in s.interfaces.items() if k in used}
        return s

    # ---- oracle helpers computed from the description only (independent of forsys)
    def cells_of_point(self, pn):
        out = []
        for cn, path in self.cells:
            for ln, _ in path:
                if pn in self.lines[ln]:
                    out.append(cn)
                    break
        return out

    def cells_of_line(self, ln):
        return [cn for cn, path in self.cells if any(l == ln for l, _ in path)]

    def lines_at(self, pn):
        return [ln for ln, pts in self.lines.items() if pts[0] == pn or pts[-1] == pn]

    def internal_lines(self):
        """lines that forsys must treat as internal interfaces: every vertex in >= 2 cells, one end in >= 3."""
        out = []
        for ln, pts in self.lines.items():
            if all(len(self.cells_of_point(p)) >= 2 for p in pts) and \
                    (len(self.cells_of_point(pts[0])) >= 3 or len(self.cells_of_point(pts[-1])) >= 3):
                out.append(ln)
        return out

    def used_junctions(self, ignore_four=False):
        """junctions that get equations: shared by >= 3 cells and end of >= 3 internal interfaces."""
        internal = set(self.internal_lines())
        out = []
        for pn in self.points:
            ls = [l for l in self.lines_at(pn) if l in internal]
            if len(self.cells_of_point(pn)) >= 3 and len(ls) >= 3:
                if ignore_four and len(ls) >= 4:
                    continue
                out.append(pn)
        return out


def _interp(spec, line, a, b, n, bulge=0.0):
    """n points from a to b inclusive (concrete defaults), interior named line.i"""
    (xa, ya), (xb, yb) = spec.points[a], spec.points[b]
    names = [a]
    for i in range(1, n - 1):
        t = i / (n - 1)
        x, y = xa + t * (xb - xa), ya + t * (yb - ya)
        if bulge:
            # parabola-ish offset perpendicular to the chord (only a default; harnesses overwrite coordinates)
            nx, ny = -(yb - ya), (xb - xa)
            f = 4 * bulge * t * (1 - t)
            x, y = x + f * nx, y + f * ny
        pn = f"{line}.{i}"
        spec.points[pn] = (x, y)
        names.append(pn)
    names.append(b)
    return names


def star(k, n_spoke=3, n_border=3, rot=0.2, bulge=0.0):
    """k cells round one k-fold junction O (T3: k=3, T4: k=4)."""
    s = Spec(f"S{k}")
    s.points["O"] = (0.0, 0.0)
    for i in range(k):
        a = rot + 2 * math.pi * i / k
        s.points[f"P{i}"] = (math.cos(a), math.sin(a))
        am = a + math.pi / k
        s.points[f"M{i}"] = (2.2 * math.cos(am), 2.2 * math.sin(am))
    for i in range(k):
        s.lines[f"s{i}"] = _interp(s, f"s{i}", "O", f"P{i}", n_spoke, bulge)
    for i in range(k):
        j = (i + 1) % k
        first = _interp(s, f"b{i}a", f"P{i}", f"M{i}", max(2, n_border))
        second = _interp(s, f"b{i}b", f"M{i}", f"P{j}", max(2, n_border))
        s.lines[f"b{i}"] = first + second[1:]
    for i in range(k):
        j = (i + 1) % k
        s.cells.append((f"c{i}", [(f"s{i}", 1), (f"b{i}", 1), (f"s{j}", -1)]))
        s.interfaces[f"s{i}"] = (f"c{(i - 1) % k}", f"c{i}")
    s.junctions = ["O"]
    return s


def wheel(k, n_side=3, n_spoke=3, n_border=3, rot=0.2, bulge=0.0):
    """central k-gon cell + k neighbours (K3: k=3, K4: k=4, R7: k=6)."""
    s = Spec(f"W{k}")
    for i in range(k):
        a = rot + 2 * math.pi * i / k
        s.points[f"J{i}"] = (math.cos(a), math.sin(a))
        s.points[f"Q{i}"] = (2.4 * math.cos(a), 2.4 * math.sin(a))
        am = a + math.pi / k
        s.points[f"M{i}"] = (3.0 * math.cos(am), 3.0 * math.sin(am))
    for i in range(k):
        j = (i + 1) % k
        s.lines[f"e{i}"] = _interp(s, f"e{i}", f"J{i}", f"J{j}", n_side, bulge)
        s.lines[f"r{i}"] = _interp(s, f"r{i}", f"J{i}", f"Q{i}", n_spoke, bulge)
    for i in range(k):
        j = (i + 1) % k
        first = _interp(s, f"b{i}a", f"Q{i}", f"M{i}", max(2, n_border))
        second = _interp(s, f"b{i}b", f"M{i}", f"Q{j}", max(2, n_border))
        s.lines[f"b{i}"] = first + second[1:]
    s.cells.append(("c", [(f"e{i}", 1) for i in range(k)]))
    for i in range(k):
        j = (i + 1) % k
        s.cells.append((f"n{i}", [(f"r{i}", 1), (f"b{i}", 1), (f"r{j}", -1), (f"e{i}", -1)]))
        s.interfaces[f"e{i}"] = ("c", f"n{i}")
        s.interfaces[f"r{i}"] = (f"n{(i - 1) % k}", f"n{i}")
    s.junctions = [f"J{i}" for i in range(k)]
    return s


def star_pendant(n_spoke=3, rot=0.2, bulge=0.0, pendants=1):
    """T3 plus pendant cells glued to the middle of border lines b0 (b1, ...): a pendant touches no internal interface."""
    s = star(3, n_spoke=n_spoke, n_border=2, rot=rot, bulge=bulge)
    s.name = "T3+pendant" if pendants == 1 else f"T3+{pendants}pendants"
    for k in range(pendants):
        sfx = "" if k == 0 else str(k)
        (x0, y0), (xm, ym) = s.points[f"P{k}"], s.points[f"M{k}"]
        A, B, X, Y = "A" + sfx, "B" + sfx, "X" + sfx, "Y" + sfx
        s.points[A] = (x0 + 0.4 * (xm - x0), y0 + 0.4 * (ym - y0))
        s.points[B] = (x0 + 0.7 * (xm - x0), y0 + 0.7 * (ym - y0))
        nx, ny = (ym - y0), -(xm - x0)
        s.points[X] = (s.points[A][0] + 0.5 * nx, s.points[A][1] + 0.5 * ny)
        s.points[Y] = (s.points[B][0] + 0.5 * nx, s.points[B][1] + 0.5 * ny)
        bl = f"b{k}"
        s.lines.pop(bl)          # Pk, Mk, Pk+1
        s.lines[bl + "a"] = [f"P{k}", A]
        s.lines[bl + "m"] = [A, B]
        s.lines[bl + "b"] = [B, f"M{k}", f"P{(k + 1) % 3}"]
        s.lines["pm" + sfx] = [A, X, Y, B]
        cells = []
        for cn, path in s.cells:
            newp = []
            for ln, d in path:
                if ln == bl:
                    newp += [(bl + "a", 1), (bl + "m", 1), (bl + "b", 1)] if d > 0 else [(bl + "b", -1), (bl + "m", -1), (bl + "a", -1)]
                else:
                    newp.append((ln, d))
            cells.append((cn, newp))
        cells.append(("pend" + sfx, [("pm" + sfx, 1), (bl + "m", -1)]))
        s.cells = cells
    return s


def single_cell(n=6):
    s = Spec("single")
    for i in range(n):
        a = 2 * math.pi * i / n
        s.points[f"V{i}"] = (math.cos(a), math.sin(a))
    s.lines["ring"] = [f"V{i}" for i in range(n)] + ["V0"]
    s.cells.append(("c", [("ring", 1)]))
    return s


class Built:
    pass


def build(spec, fs, vid=None, eid=None, cid=None, shifts=None, flips=None, cell_order=None, coords=None):
    """Create the forsys objects.
    vid/eid/cid: functions index -> id (renumbering); shifts: cell name -> cyclic shift of its vertex list;
    flips: set of cell names stored in the opposite sense; cell_order: order of insertion into the dict;
    coords: optional override point name -> (x, y)."""
    vid = vid or (lambda i: i)
    eid = eid or (lambda i: i)
    cid = cid or (lambda i: i)
    shifts = shifts or {}
    flips = flips or set()
    pts = dict(spec.points)
    if coords:
        pts.update(coords)
    b = Built()
    b.spec = spec
    b.vertices, b.edges, b.cells = {}, {}, {}
    b.vid_of, b.point_of = {}, {}
    for i, pn in enumerate(pts):
        v = vid(i)
        b.vid_of[pn] = v
        b.point_of[v] = pn
        x, y = pts[pn]
        b.vertices[v] = fs.vertex.Vertex(v, x, y)
    seen = {}
    b.eid_of = {}
    for ln, names in spec.lines.items():
        for a, c in zip(names[:-1], names[1:]):
            if (a, c) in seen or (c, a) in seen:
                continue
            e = eid(len(seen))
            seen[(a, c)] = e
            b.eid_of[(a, c)] = e
            b.edges[e] = fs.edge.SmallEdge(e, b.vertices[b.vid_of[a]], b.vertices[b.vid_of[c]])
    order = cell_order or [cn for cn, _ in spec.cells]
    paths = dict(spec.cells)
    b.cid_of, b.cell_name = {}, {}
    index_of = {cn: i for i, (cn, _) in enumerate(spec.cells)}
    for cn in order:
        path = paths[cn]
        cyc = []
        for ln, d in path:
            names = spec.lines[ln] if d > 0 else spec.lines[ln][::-1]
            cyc += names[:-1]
        if cn in flips:
            cyc = cyc[::-1]
        sh = shifts.get(cn, 0) % len(cyc)
        cyc = cyc[sh:] + cyc[:sh]
        c = cid(index_of[cn])
        b.cid_of[cn] = c
        b.cell_name[c] = cn
        b.cells[c] = fs.cell.Cell(c, [b.vertices[b.vid_of[p]] for p in cyc])
    return b


def line_of_big_edge(b, vertex_ids):
    """name and direction of the spec line that a forsys interface (list of vertex ids) corresponds to."""
    names = [b.point_of[v] for v in vertex_ids]
    for ln, pts in b.spec.lines.items():
        if pts == names:
            return ln, 1
        if pts[::-1] == names:
            return ln, -1
    return None, 0
