"""C05 -- reported tensions are the non-negative least-squares optimum with mean one.

Real ForceMatrix.solve / add_mean_one / add_mean_one_before / set_velocity_matrix / fix_one_stress /
get_solution_no_discarded run on catalogue tissues whose matrix entries are symbolic (unit tangents, or arbitrary
reals = "noisy" tissue) and whose right-hand side is zero or arbitrary (velocity stub).  The (A, b) that reaches
inv / nnls / lsq_linear / lmfit is captured at the library stub and compared with the definition.
"""
import numpy as np

from symx.runner import Job
from symx.harness import Ob
from symx import stubs
from harness import solving
from harness.solving import VelocityStub, build_case, solve, last

PROPERTY = "C05"

META = dict(
    explanation="Augmented systems of the catalogue shapes with every entry symbolic; back-ends replaced by their optimality contracts "
                "(KKT conditions), the inverse by its defining equation; path logic explored by forking on singular/regular and on the "
                "negative-value test.",
    bounds=dict(tissues="T3 (2x3 -> 3x4, fallback), K3-n0 (2x3), T4 (2x4), K3 (6x6 -> 7x7 square, inv path), K4 thorough (8x8 -> 9x9)",
                rhs="zero (static) or arbitrary reals per junction (velocity stub), rounded by the 3-decimal model",
                entries="unit tangents or arbitrary reals (noisy)", methods="default, lsq, lsq_linear, fix_stress", allow_negatives="on/off"),
    outside=["solver tolerance / iteration limits of the numerical back-ends (nnls_max_iter)", "use_std cost of the lmfit back-end",
             "uniqueness of the minimiser is a hypothesis, not checked"],
    assumptions=["scipy nnls / lsq_linear return a KKT point of min ||Ax-b||^2, x>=0 (documented optimality)",
                 "lmfit.minimize returns a first-order stationary point under its bounds",
                 "np.linalg.inv(A) @ b = x with A x = b, or LinAlgError for singular A",
                 "round(x, 3) = x + d with |d| <= 5e-4"],
    trusted=["z3 nonlinear real arithmetic"],
)


def _aug_ok(env, A, b, M, rhs3, E):
    m, n = M.shape
    ok = env.true()
    ok = ok & (A.shape == (m + 1, n + 1)) & (len(b) == m + 1)
    if A.shape != (m + 1, n + 1) or len(b) != m + 1:
        return ok
    for i in range(m):
        for j in range(n):
            ok = ok & env.eq(A[i, j], M[i, j])
        ok = ok & env.eq(A[i, n], 1)
        ok = ok & env.close(b[i], rhs3[i], 5e-4 if not isinstance(rhs3[i], int) else 0)
    for j in range(n):
        ok = ok & env.eq(A[m, j], 1)
    ok = ok & env.eq(A[m, n], 0) & env.eq(b[m], E)
    return ok


def general_position(env, c):
    """no tangent component at a used junction is exactly zero (the zero-component finding is C02's subject) --
    soft: used to decide forks, dropped first from final queries."""
    for pn in c.spec.used_junctions():
        for ln in c.spec.lines_at(pn):
            if ln in c.internal:
                u = c.vs.u(ln, pn)
                env.assume(u[0] != 0, soft=True)
                env.assume(u[1] != 0, soft=True)


def backend(env, topo, method, rhs, allow_negatives, unit=True):
    c = build_case(env, topo, unit=unit)
    general_position(env, c)
    vel = VelocityStub(env, c.built) if rhs == "velocity" else None
    kw = dict(allow_negatives=allow_negatives)
    if method:
        kw["method"] = method
    if vel is not None:
        kw["b_matrix"] = "velocity"
    err, warns = solve(c, velocity=vel, build_kw=dict(angle_limit=np.inf), **kw)
    c.vs.restore()
    obs = []
    if method == "fix_stress":
        n = len(c.internal)
        good = err is None and getattr(c.frame, "forces", None) is not None and len(c.frame.forces) == n
        obs.append(Ob("fix_stress-reports-one-tension-per-interface", good, finding="fix_stress_unusable",
                      note=f"{type(err).__name__}: {err}" if err else None))
        return obs
    obs.append(Ob("solve-does-not-raise", err is None, note=f"{type(err).__name__}: {err}" if err else None))
    if err is not None:
        return obs
    M = c.M
    m, n = M.shape
    E = n
    # right-hand side as the property defines it
    rhs3 = [0] * m
    if vel is not None:
        for vid, r0 in c.fm.map_vid_to_row.items():
            vx, vy = vel.v(c.built.point_of[vid])
            rhs3[r0], rhs3[r0 + 1] = vx, vy
    forces = c.frame.forces
    att = stubs.CAP.get("inv_attempt", [])
    inv, nn, ll, lm = last("inv"), last("nnls"), last("lsq_linear"), last("lmfit")
    square = (m == n)
    if method in (None, "lsq"):
        if method is None:
            obs.append(Ob("inverse-attempted-exactly-once", len(att) == 1))
            obs.append(Ob("inverse-path-iff-square", (att[0]["outcome"] == "not-square") == (not square) if att else False))
            fallback = nn is not None
            obs.append(Ob("warning-iff-fallback", (len(warns) > 0) == fallback))
            if not square:
                obs.append(Ob("rectangular-system-falls-back-to-nnls", fallback))
            src = nn if fallback else inv
        else:
            fallback = nn is not None
            src = nn if fallback else lm
            if lm is not None:
                # the property's optimum ranges over non-negative candidates *including the multiplier*
                obs.append(Ob("lsq-every-parameter-including-the-multiplier-is-bounded-below-by-zero",
                              all(mn is not None and mn == 0 for mn in lm["mins"]) and len(lm["mins"]) == n + 1))
                A, b = lm["args"]
                obs.append(Ob("lmfit-gets-the-augmented-system", _aug_ok(env, np.asarray(A, dtype=object), list(np.asarray(b, dtype=object).reshape(-1)), M, rhs3, E)))
        if src is None:
            obs.append(Ob("some-back-end-answered", False))
            return obs
        if src is not lm:
            obs.append(Ob("back-end-gets-the-augmented-system", _aug_ok(env, np.asarray(src["A"], dtype=object), list(src["b"]), M, rhs3, E)))
        x = list(src["x"])
        obs.append(Ob("reported-is-back-end-solution-without-multiplier",
                      (len(forces) == n) & env.conj([env.eq(forces[i], x[i]) for i in range(min(n, len(forces)))])))
        if method is None and not fallback:
            # exact-inversion path: (x, lambda) solves the augmented system exactly; it is the non-negative optimum only
            # if the multiplier is non-negative as well -- the code never looks at it
            obs.append(Ob("inv-path-multiplier-nonnegative", x[n] >= 0, finding="inv_path_negative_multiplier"))
            obs.append(Ob("inv-path-mean-one", env.eq(sum(x[:n][1:], x[0]), E)))
    elif method == "lsq_linear":
        obs.append(Ob("lsq_linear-called", ll is not None))
        if ll is None:
            return obs
        lo, hi = ll["bounds"]
        obs.append(Ob("lsq_linear-bounds-are-zero-to-infinity", bool(np.all(np.asarray(lo) == 0)) and bool(np.all(np.isinf(np.asarray(hi, dtype=float))))))
        A, b = np.asarray(ll["A"], dtype=object), list(ll["b"])
        ok = env.true() & (A.shape == (n + 1, n + 1)) & (len(b) == n + 1)
        if A.shape == (n + 1, n + 1):
            for i in range(n):
                for j in range(n):
                    ok = ok & env.eq(A[i, j], sum((M[k, i] * M[k, j] for k in range(m)), 0))
                ok = ok & env.eq(A[i, n], 1) & env.eq(A[n, i], 1)
                ok = ok & env.close(b[i], sum((M[k, i] * rhs3[k] for k in range(m)), 0), 5e-4 if vel is not None else 0)
            ok = ok & env.eq(A[n, n], 0) & env.eq(b[n], E)
        obs.append(Ob("lsq_linear-gets-the-bordered-normal-system", ok))
        x = list(ll["x"])
        obs.append(Ob("reported-is-back-end-solution-without-multiplier",
                      (len(forces) == n) & env.conj([env.eq(forces[i], x[i]) for i in range(min(n, len(forces)))])))
    if not allow_negatives:
        obs.append(Ob("no-negative-tension-reported", env.conj([forces[i] >= 0 for i in range(len(forces))])))
    return obs


def jobs(tier):
    js = []
    quick = tier == "quick"
    topos = ["T3", "K3"] if quick else ["T3", "T4", "K3-n0", "K3"]
    for t in topos:
        for method in (None, "lsq", "lsq_linear"):
            for rhs in ("static", "velocity"):
                for an in (False, True):
                    for unit in ((True,) if quick else (True, False)):
                        if quick and an and (method is not None or rhs == "velocity"):
                            continue
                        js.append(Job(f"{t}-{method or 'default'}-{rhs}-neg={'on' if an else 'off'}-{'unit' if unit else 'noisy'}",
                                      "c05:backend", dict(topo=t, method=method, rhs=rhs, allow_negatives=an, unit=unit),
                                      budget_s=900, max_paths=300, weight=10 if t == "K3" else 1, opts=dict(cheap_forks=True)))
    for t in ("T3", "K3"):
        js.append(Job(f"{t}-fix_stress", "c05:backend", dict(topo=t, method="fix_stress", rhs="static", allow_negatives=False),
                      budget_s=600, max_paths=300, weight=5, opts=dict(cheap_forks=True)))
    return js
