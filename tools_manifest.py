#!/usr/bin/env python3
"""Regenerates MANIFEST.json from the table below (keeps the file valid and consistent)."""
import json, os
V = os.path.dirname(os.path.abspath(__file__))
CLAIMED = {
 "C01": dict(text="Chain of solver-decided links on the real code: tangents (C02-A, re-run), truth solves the captured system, and -- using the back-ends' KKT / inverse contracts plus the uniqueness hypothesis instantiated at (reported - truth) -- the reported values equal E*T/sum(T) for every equilibrium configuration of the catalogue tissues; the KKT zero-residual step is itself proved by z3 through a lemma chain.",
             note="Back-ends trusted to return a KKT point / exact inverse; uniqueness of the augmented problem assumed (slightly stronger than the property's hypothesis: the check claims less); T3, K3-n0, K3 regular-inverse (K3 singular branch, K4 thorough); resampling leg is C11's obligation.",
             ref="3/C01"),
 "C02": dict(text="Bounded symbolic execution of the real tangent code on arcs with symbolic points (closed-form tangent oracle) and of the real matrix assembly on catalogue tissues with one symbolic unit tangent per (interface, junction); every coefficient, row and column obligation is an SMT query over all values, with the known defect regions split off by the solver.",
             note="Floats as reals; circle-fit libraries stubbed by the circumcentre contract (the repo's objective is checked to vanish there); 2..5 (9 thorough) points per interface; catalogue topologies only; counterexamples of the tissue-level obligations are replayed with the tangent stub retained.",
             ref="3/C02"),
 "C03": dict(text="Series whose neighbouring-frame positions are defined symbolically as position + elapsed time x resultant of symbolic tensions along symbolic tangents; the real velocity-based solve is executed and the system reaching the back-end is shown to be solved by the true tensions up to the 5e-4 rounding bound, for every tension vector, tangent configuration, time stamps and frame numbering in the bound; the reported values are the back-end's.",
             note="Back-end optimality and uniqueness trusted as in C01 (same multiplier-column caveat); T3 three-frame series (K4-n0 thorough); correspondence via initial_guess; lsq_linear only structurally (C05).",
             ref="3/C03"),
 "C04": dict(text="The real curvature, pressure-row and pressure-solve code runs on symbolic inputs: per-point and total curvature signs on symbolic arcs, exact zero / scale / translation / reflection behaviour of the turning estimate, the +-1 pair and right-hand side of a row for every storage direction and orientation pattern of two symbolic cells, and the bordered normal equations, zero-sum, linearity and zero-for-isolated-cells of the solve with symbolic tensions.",
             note="Two numerical-accuracy clauses (3% turning accuracy, correlation >= 0.9) are transcendental and not claimed; np.gradient shimmed by its documented formula; exact rational inverse on concrete geometry; per-point sign only for uniformly sampled arcs (n<=9) and free 3-point arcs.",
             ref="3/C04"),
 "C05": dict(text="The real ForceMatrix.solve runs on symbolic matrices; what reaches inv / nnls / lsq_linear / lmfit is captured at the library stub and compared with the definition of the augmented problem; path logic (square/regular/negative) is explored by forking; optimality is reduced to the back-ends' KKT contracts and the multiplier sign.",
             note="Back-ends are trusted to return a KKT point (documented optimality); inverse modelled by its defining equation; rounding as a bounded perturbation; T3/K3 (T4, K3-n0 thorough) system shapes.",
             ref="3/C05"),
 "C06": dict(text="Transform parameters are symbols next to the geometry: the real tangent code is run on an arc and on its translated / scaled / rotated / reflected image, the curvature and area-sign code likewise, the adimensional velocity right-hand side on two series differing in the time or length unit, and the optimum of the augmented problem is tested against the optimality conditions of the rotated problem; each comparison is an SMT query over the whole continuous group.",
             note="3-point arcs (5 thorough); frame-dependent regions (per-component sign forcing, multiplier column) are recorded findings split off by the solver; pressures only through curvature and area sign; tolerance-by-conditioning clause outside (exact arithmetic).",
             ref="3/C06"),
 "C07": dict(text="The real Frame / ForceMatrix / PressureMatrix are built under a bounded, enumerated family of labelings (cell-id permutations with gaps, cyclic shifts, orientation patterns, vertex and edge id maps, insertion order) and compared in physical terms with a reference; tangents and tensions are symbols keyed by the physical interface and junction, so the equalities are decided for every value at once.",
             note="The labeling family is enumerated, not symbolic (stated bound: 145 labelings per job); catalogue tissues; back-end order-independence trusted; pressure rows on concrete curved geometry.",
             ref="3/C07"),
 "C10": dict(text="Two-frame series with symbolic tangents and uninterpreted back-ends: store contents after a solve are compared term-by-term with the back-end result, and every bounded call history (symbolic call choices) is compared with a fresh object.",
             note="Histories: 4 warm-up builds + 1 (quick) / 2 (thorough) free calls + canonical calls; T3 (K3 thorough); tangent stub contract; back-ends deterministic.",
             ref="3/C10"),
 "C11": dict(text="Three solver-based engines on the real resampling code: CrossHair explores generate_mesh's sampling kernel for every interface length in the bound; a bit-precise QF_BVFP lemma, extracted from the current AST, shows that the float index arithmetic equals floor(L*i/ne) and yields a strictly increasing in-range subsequence for L up to 4096; symx runs whole catalogue meshes with symbolic coordinates (junction positions, subsequences, idempotence, midpoint contraction).",
             technique="CrossHair symbolic execution + bit-precise SMT (QF_BVFP, cvc5/z3) lemma from the AST + bounded symbolic execution over reals",
             note="create_edges_new stubbed for the kernel harness; L <= 41 (kernel), L <= 4096 (lemma), ne <= 12; catalogue meshes with 0..8 interior points; parsed skeletons / dumps are outside.",
             ref="3/C11"),
 "C12": dict(text="Displacements of all tracked points are symbols in a box; the real create_mapping / find_best / get_point_id_by_map are explored over every outcome of the growing-radius nearest-neighbour search, and injectivity, end-point membership, honoured user pairings, correctness of every pairing and the forward-backward round trip are checked on every path.",
             note="Small bounds: 4 tracked points (T3; K3-n0 thorough), 2 (3) frames, displacements up to 0.3% (0.55% thorough) of the extent, cm off; larger displacements and cm=True did not finish within the budget and are outside the claim.",
             ref="3/C12"),
 "C13": dict(text="Three-frame series with symbolic positions, symbolic increasing time stamps and per-frame renumbering: the real calculate_velocity / get_point_id_by_map / set_velocity_matrix / get_system_velocity_per_frame are executed symbolically and every velocity, right-hand-side entry and normalisation is compared with the finite-difference definition as an identity between terms.",
             note="Correspondence supplied through initial_guess (the search is C12); min/max as If-terms; T3 (K3 thorough); every used junction moves between consecutive frames (otherwise the adimensional normalisation divides by zero).",
             ref="3/C13"),
 "C16": dict(text="Symbolic unit tangents, exact arccos comparison through monotonicity; the flagged-junction set, the excluded interfaces, the -1 re-insertion and the restricted system are each compared with an oracle computed from the tissue description, for every tangent configuration.",
             note="T3, K3 (K4 thorough); limits 0.5pi..pi, default, inf; cos(limit) is the nearest double; back-end contracts as in C05.",
             ref="3/C16"),
 "C17": dict(text="The image is an arbitrary array of symbols, so the value returned by the real get_intensities for an interface is a term over pixels; it is compared with the window (mean of medians) and band (distinct pixels / length) statistics defined from the property, together with homogeneity, the uniform-image case, average normalisation and the write-back order.",
             note="Interfaces are concrete integer polylines (5 shapes) placed by concrete rescale/offset; 14x14 (20x20) images; layers 0..1 (2 thorough); PIL's coordinate truncation modelled; three defects of the integrated / repeated-interface paths are recorded findings.",
             ref="3/C17"),
 "C18": dict(text="Every cell pressure and interface tension is a symbol, so each entry of each grid cell's tensor produced by the real stress_tensor code is a linear form; symmetry, exact zero outside the radius, joint linearity, the isotropic limit and the pairing of eigen-systems with grid centres are decided for all assignments at once.",
             note="Geometry concrete (catalogue tissues with curved interfaces); np.linalg.eig replaced by a token; grid 1..4 quick, 1..12 thorough.",
             ref="3/C18"),
 "C20": dict(text="Bounded symbolic execution (symx) of the real Cell methods on polygons with 3..8 symbolic vertices; every identity / sign / navigation obligation is decided by z3 on every path, so it holds for all real coordinates inside the bound, not for samples.",
             note="Floats as reals; polygons up to 8 vertices; star-shaped polygons for the sign convention; scipy leastsq (cell centre, unused here) stubbed.",
             ref="3/C20"),
}
NA = {
 "C19": "the only part within reach is the post-Qhull lattice builder with scipy.spatial.Voronoi stubbed; its vertex / edge interning by coordinate equality and the all-pairs distance matrix fork quadratically in the number of symbolic corners and the exploration of the smallest shared-ridge lattice (4 bounded regions) did not finish one path in 25 min (harness kept as harness/c19.py, unregistered); that Qhull's output is the Voronoi diagram is outside any solver's reach (DESIGN.md section 5)",
 "C08": "purely topological statement over object graphs; no symbolic dimension survives realisation into Vertex/Cell objects (DESIGN.md section 5)",
 "C09": "heap back-reference invariant over parsers, editing histories and GC-driven destructors; outside solver reach (DESIGN.md section 5)",
 "C14": "quantifier over text file layouts; file I/O, regex, float(text), pandas cannot be given symbolic input within reach (DESIGN.md section 5)",
 "C15": "raster input through OpenCV's C++ contour tracer; nothing symbolic can pass (DESIGN.md section 5)",
}
PENDING = {}
def main():
    props = [json.loads(l) for l in open(os.path.join(V, "properties.jsonl"))]
    checks = []
    for p in props:
        pid = p["id"]
        if pid in CLAIMED:
            c = CLAIMED[pid]
            checks.append(dict(property_id=pid, quick_cmd=f"bin/check {pid} --tier quick", thorough_cmd=f"bin/check {pid} --tier thorough",
                               evidence_file=f"/verif/evidence/{pid}.json", replay_cmd_template="bin/replay {path}", engine="symx",
                               level_claimed=dict(category="other", text=c["text"], design_ref=c["ref"]), level_note=c["note"],
                               technique=c.get("technique", "bounded symbolic execution of the real Python code + SMT (z3, nonlinear real arithmetic)")))
    na = [dict(property_id=k, reason=v) for k, v in NA.items()]
    for p in props:
        if p["id"] not in CLAIMED and p["id"] not in NA:
            na.append(dict(property_id=p["id"], reason=PENDING.get(p["id"], "check not built yet in this revision (planned, see DESIGN.md section 3)")))
    m = dict(version=1, setup_cmd="bin/setup",
             hooks=dict(guard="FORSYS_VERIF", enable="no source hooks: quantities are captured at the library stubs; checks set FORSYS_VERIF=1 for uniformity",
                        baseline_off_cmd="cd /repo && /venv/bin/python -m pytest -ra -q -p no:cacheprovider --timeout=900 --continue-on-collection-errors",
                        source_commits=[], add_only=True),
             engines=[dict(name="symx", path="symx/", serves_properties=sorted(CLAIMED), kind_free_text="dynamic symbolic executor over the reals (z3 proxies through numpy object arrays) with library contract stubs and concrete replay"),],
             checks=checks, not_applicable=sorted(na, key=lambda x: x["property_id"]),
             notes="Exit codes: 0 held, 1 VIOLATION (reproduced counterexample), 2 inconclusive/harness error. See DESIGN.md.")
    json.dump(m, open(os.path.join(V, "MANIFEST.json"), "w"), indent=1)
if __name__ == "__main__":
    main()
