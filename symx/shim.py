"""numpy / builtins environment shim for forsys modules (DESIGN.md section 2.2).

Nothing in numpy itself is patched.  Every forsys module's global `np` is replaced by an NPProxy whose
attributes fall through to numpy unless (a) a symbolic exploration is active and (b) the call involves
symbols or allocates an array that forsys later fills.  With no exploration active (concrete replay)
all shims are transparent.
"""
import builtins
import itertools
import sys
import types

import numpy as np
import z3

from . import core
from .core import SymReal, SymBool, SymAngle, has_sym, Inconclusive

HITS = {}          # shim name -> number of symbolic uses (evidence)


def _hit(name):
    HITS[name] = HITS.get(name, 0) + 1


def active():
    return core.CTX is not None


class SymArray(np.ndarray):
    """dtype=object array that survives forsys's explicit float conversions."""
    __array_priority__ = 100

    def __new__(cls, a):
        return np.asarray(a, dtype=object).view(cls)

    def astype(self, dtype, *a, **k):
        dtype = _dt(dtype)
        if has_sym(self):
            _hit("astype")
            if dtype in (float, np.float64, np.float32, "float", "float64", object):
                return self.copy()
            raise Inconclusive(f"astype({dtype}) of a symbolic array")
        return np.asarray(self).astype(dtype, *a, **k)

    def round(self, decimals=0, out=None):
        if has_sym(self):
            _hit("round")
            r = np.empty(self.shape, dtype=object)
            for idx in np.ndindex(*self.shape):
                x = self[idx]
                r[idx] = x.__round__(decimals) if isinstance(x, SymReal) else builtins.round(float(x), decimals)
            return r.view(SymArray)
        return np.asarray(self).astype(float).round(decimals)

    def _cmp(self, other, op):
        """elementwise comparison that keeps symbolic results as SymBool objects (numpy would call bool() on each)"""
        if not has_sym(self) and not has_sym(other):
            return getattr(np.asarray(self).astype(float), op)(other)
        o = np.broadcast_to(np.asarray(other, dtype=object), self.shape) if not np.isscalar(other) and not isinstance(other, SymReal) \
            else None
        out = np.empty(self.shape, dtype=object)
        for idx in np.ndindex(*self.shape):
            a = self[idx]
            b = other if o is None else o[idx]
            out[idx] = getattr(a, op)(b) if isinstance(a, SymReal) else (getattr(b, {"__lt__": "__gt__", "__gt__": "__lt__", "__le__": "__ge__", "__ge__": "__le__"}[op])(a)
                                                                      if isinstance(b, SymReal) else getattr(float(a), op)(float(b)))
        return out.view(SymArray)

    def __lt__(self, o): return self._cmp(o, "__lt__")
    def __le__(self, o): return self._cmp(o, "__le__")
    def __gt__(self, o): return self._cmp(o, "__gt__")
    def __ge__(self, o): return self._cmp(o, "__ge__")

    def mean(self, *a, **k):
        if has_sym(self) and not a and not k:
            return _mean(self)
        return np.asarray(self).mean(*a, **k)

    def std(self, *a, **k):
        if has_sym(self):
            raise Inconclusive("std of a symbolic array")
        return np.asarray(self).astype(float).std(*a, **k)


def _wrap(r):
    if isinstance(r, np.ndarray) and r.dtype == object and r.ndim == 0:
        return r.item()
    if isinstance(r, np.ndarray) and r.dtype == object and not isinstance(r, SymArray):
        return r.view(SymArray)
    if isinstance(r, tuple):
        return tuple(_wrap(x) for x in r)
    return r


def _zeros_like(fill):
    def f(shape, dtype=float, *a, **k):
        dtype = _dt(dtype)
        if active() and dtype in (float, None, np.float64):
            r = np.empty(shape, dtype=object)
            r.fill(fill)
            return r.view(SymArray)
        return getattr(np, {0.0: "zeros", 1.0: "ones"}[fill])(shape, dtype, *a, **k)
    return f


def _empty(shape, dtype=float, *a, **k):
    dtype = _dt(dtype)
    if active() and dtype in (float, None, np.float64):
        r = np.empty(shape, dtype=object)
        r.fill(0.0)
        return r.view(SymArray)
    return np.empty(shape, dtype, *a, **k)


def _dt(dtype):
    """forsys modules see symfloat / symint under the names float / int: map them back when used as dtypes"""
    if dtype is symfloat:
        return float
    if dtype is symint:
        return int
    return dtype


def _array(obj, dtype=None, *a, **k):
    dtype = _dt(dtype)
    if active() and has_sym(obj):
        return np.array(obj, dtype=object, *a, **k).view(SymArray)
    return np.array(obj, dtype, *a, **k)


def _count_nonzero(a, axis=None, **k):
    if active() and has_sym(a):
        _hit("count_nonzero")
        arr = np.asarray(a, dtype=object)

        def count(items):
            tot = 0
            for x in items:
                if isinstance(x, SymReal):
                    tot = tot + SymReal(z3.If(x.e != 0, z3.RealVal(1), z3.RealVal(0)))
                else:
                    tot = tot + (1 if x != 0 else 0)
            return tot
        if axis is None:
            return count(arr.flat)
        if arr.ndim != 2 or axis not in (0, 1):
            raise Inconclusive("count_nonzero(axis) on a symbolic array of this shape")
        lines = arr.T if axis == 0 else arr
        out = np.empty(len(lines), dtype=object)
        for i, ln in enumerate(lines):
            out[i] = count(ln)
        return out.view(SymArray)
    return np.count_nonzero(np.asarray(a, dtype=float) if isinstance(a, SymArray) else a, axis=axis, **k)


def _gradient(f, *a, **k):
    if active() and has_sym(f):
        _hit("gradient")
        if a or k:
            raise Inconclusive("np.gradient with spacing arguments on symbols")
        f = list(f)
        n = len(f)
        if n < 2:
            raise ValueError("Shape of array too small to calculate a numerical gradient")
        out = [None] * n
        out[0] = f[1] - f[0]
        out[-1] = f[-1] - f[-2]
        for i in range(1, n - 1):
            out[i] = (f[i + 1] - f[i - 1]) / 2
        return np.array(out, dtype=object).view(SymArray)
    return np.gradient(f, *a, **k)


def _norm(x, ord=None, axis=None, keepdims=False):
    if active() and has_sym(x):
        _hit("linalg.norm")
        if ord is not None or axis is not None:
            raise Inconclusive("norm(ord/axis) on symbols")
        tot = 0
        for v in np.asarray(x, dtype=object).flat:
            tot = tot + v * v
        return tot.sqrt() if isinstance(tot, SymReal) else np.sqrt(tot)
    if isinstance(x, SymArray):
        x = np.asarray(x).astype(float)
    return np.linalg.norm(x, ord=ord, axis=axis, keepdims=keepdims)


def _mean(a, *args, **k):
    if active() and has_sym(a):
        _hit("mean")
        if args or k:
            raise Inconclusive("mean(axis/...) on symbols")
        flat = list(np.asarray(a, dtype=object).flat)
        tot = 0
        for v in flat:
            tot = tot + v
        return tot / len(flat)
    if isinstance(a, SymArray):
        a = np.asarray(a).astype(float)
    return np.mean(a, *args, **k)


def _boolterm(x):
    if isinstance(x, SymBool):
        return x.e
    if isinstance(x, SymReal):
        return x.e != 0
    return z3.BoolVal(bool(x))


def _any(a, *args, **k):
    if active() and has_sym(a):
        _hit("any")
        if args or k:
            raise Inconclusive("any(axis) on symbols")
        return SymBool(z3.Or(*[_boolterm(x) for x in np.asarray(a, dtype=object).flat]))
    return np.any(a, *args, **k)


def _all(a, *args, **k):
    if active() and has_sym(a):
        _hit("all")
        if args or k:
            raise Inconclusive("all(axis) on symbols")
        return SymBool(z3.And(*[_boolterm(x) for x in np.asarray(a, dtype=object).flat]))
    return np.all(a, *args, **k)


def _isnan(x):
    if active() and has_sym(x):
        if isinstance(x, SymReal):
            return False
        return np.zeros(np.shape(x), dtype=bool)
    return np.isnan(x)


def _around(a, decimals=0, out=None):
    if active() and has_sym(a):
        _hit("around")
        if isinstance(a, SymReal):
            return a.__round__(decimals)
        return SymArray(np.asarray(a, dtype=object)).round(decimals)
    if isinstance(a, SymArray):
        a = np.asarray(a).astype(float)
    return np.around(a, decimals)


def sort_network_median(vals):
    """median of symbolic values, no forks.  Odd length: a fresh variable m characterised by
    m in {w_j}, #{w_j <= m} >= k+1, #{w_j >= m} >= k+1 (memoised on the multiset of terms, so the same window gives the
    same variable); even length: If-term sorting network."""
    xs = [core.lift(v) for v in vals]
    n = len(xs)
    if n == 1:
        return SymReal(xs[0])
    if n % 2 == 1 and core.CTX is not None:
        c = core.CTX
        key = tuple(sorted(x.get_id() for x in xs))
        memo = c.memo.setdefault("median", {})
        if key not in memo:
            m = c.newvar("med")
            k = n // 2
            one, zero = z3.RealVal(1), z3.RealVal(0)
            le = z3.Sum([z3.If(x <= m, one, zero) for x in xs])
            ge = z3.Sum([z3.If(x >= m, one, zero) for x in xs])
            c.add_def(core.Def(m, "median", z3.And(z3.Or(*[m == x for x in xs]), le >= k + 1, ge >= k + 1)))
            memo[key] = (SymReal(m), xs)
        return memo[key][0]
    # odd-even transposition sort with If-terms
    for rnd in range(n):
        for i in range(rnd % 2, n - 1, 2):
            a, b = xs[i], xs[i + 1]
            xs[i], xs[i + 1] = z3.If(a <= b, a, b), z3.If(a <= b, b, a)
    if n % 2:
        return SymReal(xs[n // 2])
    return SymReal((xs[n // 2 - 1] + xs[n // 2]) / 2)


def _median(a, *args, **k):
    if active() and has_sym(a):
        _hit("median")
        if args or k:
            raise Inconclusive("median(axis) on symbols")
        return sort_network_median(list(np.asarray(a, dtype=object).flat))
    return np.median(a, *args, **k)


class SymAngleMax:
    """max of several arccos values: only `>= limit` style comparisons are needed."""

    def __init__(self, angles):
        self.angles = angles

    def _any(self, f):
        rs = [f(a) for a in self.angles]
        if all(isinstance(r, (bool, np.bool_)) for r in rs):
            return any(rs)
        return SymBool(z3.Or(*[core.as_z3_bool(r) for r in rs]))

    def _all(self, f):
        rs = [f(a) for a in self.angles]
        if all(isinstance(r, (bool, np.bool_)) for r in rs):
            return all(rs)
        return SymBool(z3.And(*[core.as_z3_bool(r) for r in rs]))

    def __ge__(self, o): return self._any(lambda a: a >= o)
    def __gt__(self, o): return self._any(lambda a: a > o)
    def __lt__(self, o): return self._all(lambda a: a < o)
    def __le__(self, o): return self._all(lambda a: a <= o)


def _max(a, *args, **k):
    if active() and not args and not k and has_sym(a):
        flat = list(np.asarray(a, dtype=object).flat)
        if all(isinstance(x, (SymReal, int, float, np.floating, np.integer)) for x in flat):
            _hit("max(array) -> If-term")
            return _ifmin((flat,), False)
    if active() and not args and not k:
        try:
            items = list(a)
        except TypeError:
            items = None
        if items and all(isinstance(x, SymAngle) for x in items):
            _hit("max(angles)")
            return SymAngleMax(items)
    return _wrap(np.max(a, *args, **k))


def _min(a, *args, **k):
    if active() and not args and not k and has_sym(a):
        flat = list(np.asarray(a, dtype=object).flat)
        if all(isinstance(x, (SymReal, int, float, np.floating, np.integer)) for x in flat):
            _hit("min(array) -> If-term")
            return _ifmin((flat,), True)
    return _wrap(np.min(a, *args, **k))


def _sign(x):
    # natural object loop forks through comparisons; keep numpy's own behaviour
    return _wrap(np.sign(x))


class _LinalgProxy:
    def __init__(self):
        self.over = {"norm": _norm}

    def __getattr__(self, name):
        if name in self.over:
            return self.over[name]
        return getattr(np.linalg, name)


class NPProxy(types.ModuleType):
    """stands in for `np` inside forsys modules."""

    def __init__(self):
        super().__init__("numpy_symx_proxy")
        self.__dict__["_over"] = {
            "zeros": _zeros_like(0.0), "ones": _zeros_like(1.0), "empty": _empty, "array": _array,
            "count_nonzero": _count_nonzero, "gradient": _gradient, "mean": _mean,
            "any": _any, "all": _all, "isnan": _isnan, "around": _around, "round": _around,
            "median": _median, "max": _max, "amax": _max, "min": _min, "amin": _min,
        }
        self.__dict__["linalg"] = _LinalgProxy()
        self.__dict__["_wrapped"] = {}

    def __getattr__(self, name):
        ov = self.__dict__["_over"]
        if name in ov:
            return ov[name]
        real = getattr(np, name)
        if isinstance(real, (types.FunctionType, types.BuiltinFunctionType, np.ufunc)) or \
                type(real).__name__ == "_ArrayFunctionDispatcher":
            w = self.__dict__["_wrapped"].get(name)
            if w is None:
                def w(*a, __real=real, **k):
                    if "dtype" in k:
                        k["dtype"] = _dt(k["dtype"])
                    return _wrap(__real(*a, **k))
                w.__name__ = name
                self.__dict__["_wrapped"][name] = w
            return w
        return real


PROXY = NPProxy()


def symfloat(x=0.0):
    return x if isinstance(x, SymReal) else builtins.float(x)


def symint(x=0, *a):
    if isinstance(x, SymReal):
        if z3.is_rational_value(x.e) and x.e.denominator_as_long() == 1:
            return x.e.numerator_as_long()
        # Python's int() truncates toward zero
        t = z3.If(x.e >= 0, z3.ToReal(z3.ToInt(x.e)), -z3.ToReal(z3.ToInt(-x.e)))
        _hit("int(symbol) -> truncation")
        return SymReal(t)
    return builtins.int(x, *a)


def _ifmin(args, want_min):
    vals = list(args[0]) if len(args) == 1 else list(args)
    if not any(isinstance(v, SymReal) for v in vals):
        return (builtins.min if want_min else builtins.max)(vals)
    _hit("min/max -> If-term")
    cur = core.lift(vals[0])
    c = core.CTX

    def implied(cond):
        # cheap static pruning: linear relaxation of (path condition and not cond); opt-in (it costs two relaxations per
        # comparison and only pays off when most comparisons are decided by numeric bounds, as in C12)
        if not c.opts.get("prune_minmax"):
            return False
        try:
            neg = z3.Not(cond)
            return core.relaxation_unsat(c._slice(core.vars_of(neg), 2) + [neg])
        except z3.Z3Exception:
            return False
    for v in vals[1:]:
        t = core.lift(v)
        if z3.is_rational_value(cur) and z3.is_rational_value(t):
            a, b = core._num(cur), core._num(t)
            cur = (cur if a <= b else t) if want_min else (cur if a >= b else t)
            continue
        le = cur <= t
        if implied(le):
            cur = cur if want_min else t
        elif implied(t <= cur):
            cur = t if want_min else cur
        else:
            cur = z3.If(le, cur, t) if want_min else z3.If(cur >= t, cur, t)
    return SymReal(cur)


def symmin(*args, **k):
    if k or not active():
        return builtins.min(*args, **k)
    return _ifmin(args, True)


def symmax(*args, **k):
    if k or not active():
        return builtins.max(*args, **k)
    return _ifmin(args, False)


FORSYS_MODULES = ["cell", "edge", "vertex", "virtual_edges", "frames", "fmatrix", "forsys", "general_matrix",
                  "pmatrix", "time_series", "myosin", "stress_tensor", "tessellation", "borders"]


def install():
    """import forsys and rebind np / float / int in its modules.  Idempotent."""
    import importlib
    import forsys  # noqa
    for m in FORSYS_MODULES:
        mod = importlib.import_module("forsys." + m)
        if "np" in mod.__dict__:
            mod.__dict__["np"] = PROXY
        mod.__dict__["float"] = symfloat
        mod.__dict__["int"] = symint
        mod.__dict__["min"] = symmin
        mod.__dict__["max"] = symmax
    return forsys
