"""Dual-mode harness environment: the same harness body runs symbolically (z3 symbols, library contract
stubs) and concretely (floats taken from a solver model, real libraries) -- the latter is the replay."""
import math

import numpy as np
import z3

from . import core
from .core import SymReal, SymBool, as_z3_bool


class PreconditionFailed(Exception):
    pass


class Ob:
    """One obligation on one path.  cond: SymBool | z3 Bool | bool.
    finding/region: if the known finding `finding` is open, the obligation is split by the solver into
    (cond or region) -- must hold -- and the witness query (not cond and region)."""

    def __init__(self, name, cond, finding=None, region=None, note=None, lemmas=None):
        self.lemmas = lemmas or []
        self.name = name
        self.cond = cond
        self.finding = finding
        self.region = region
        self.note = note


class SymEnv:
    mode = "sym"

    def __init__(self):
        self.tol = None

    def real(self, name):
        c = core.CTX
        v = z3.Real(name)
        c.inputs[name] = v
        return SymReal(v)

    def reals(self, prefix, n):
        return [self.real(f"{prefix}{i}") for i in range(n)]

    def const(self, x):
        return x

    def assume(self, cond, soft=False):
        core.CTX.assume(cond, soft=soft)

    def unit(self, name):
        c, s = self.real(name + "_c"), self.real(name + "_s")
        self.assume(c * c + s * s == 1)
        core.CTX.hints.setdefault("unit", []).append((name + "_c", name + "_s"))
        return c, s

    def hint_unit(self, xname, yname):
        core.CTX.hints.setdefault("unit", []).append((xname, yname))

    def choice(self, name, options):
        """symbolic selection among options: a symbolic integer the explorer forks on."""
        v = self.real(name)
        k = len(options)
        self.assume(SymBool(z3.Or(*[v.e == i for i in range(k)])))
        for i in range(k - 1):
            if v == i:
                return options[i]
        return options[k - 1]

    def hint_positive(self, name):
        core.CTX.hints.setdefault("positive", []).append(name)

    def hint_value(self, name, value):
        """a plausible concrete value for an input: only guides the sat-side sampler, never constrains anything."""
        core.CTX.hints.setdefault("values", {})[name] = float(value)

    # conditions
    def eq(self, a, b, tol=None, abs_tol=None):
        if not isinstance(a, SymReal) and not isinstance(b, SymReal) and abs_tol is None:
            # two concrete numbers computed by the real code in IEEE arithmetic: compare with the replay tolerance
            fa, fb = float(a), float(b)
            return SymBool(z3.BoolVal(abs(fa - fb) <= (1e-9 if tol is None else tol) * max(1.0, abs(fa), abs(fb))))
        ea, eb = core.lift(a), core.lift(b)
        if abs_tol is not None and self.use_abs_tol:
            t = z3.RealVal(str(abs_tol))
            return SymBool(z3.And(ea - eb <= t, eb - ea <= t))
        return SymBool(ea == eb)

    use_abs_tol = True

    def close(self, a, b, abs_tol):
        """|a-b| <= abs_tol as a formula (used across the rounding model)."""
        ea, eb = core.lift(a), core.lift(b)
        t = z3.RealVal(str(abs_tol))
        return SymBool(z3.And(ea - eb <= t, eb - ea <= t))

    def true(self):
        return SymBool(z3.BoolVal(True))

    def conj(self, conds):
        conds = [as_z3_bool(c) for c in conds]
        return SymBool(z3.And(*conds)) if conds else SymBool(z3.BoolVal(True))

    def disj(self, conds):
        conds = [as_z3_bool(c) for c in conds]
        return SymBool(z3.Or(*conds)) if conds else SymBool(z3.BoolVal(False))

    def neg(self, c):
        return SymBool(z3.Not(as_z3_bool(c)))

    def implies(self, a, b):
        return SymBool(z3.Implies(as_z3_bool(a), as_z3_bool(b)))

    def same(self, a, b):
        """identical value (term identity up to arithmetic) -- for plumbing obligations."""
        if isinstance(a, (SymReal,)) or isinstance(b, (SymReal,)):
            return self.eq(a, b)
        return SymBool(z3.BoolVal(bool(a == b)))

    def note(self, what):
        core.CTX.notes.append(what)


class ConcEnv:
    """Concrete replay: inputs come from a solver model (or a recorded case)."""
    mode = "conc"
    use_abs_tol = True

    def __init__(self, values, tol=1e-6, strict_assume=True):
        self.values = values
        self.tol = tol
        self.strict_assume = strict_assume
        self.failed_assumptions = []

    def real(self, name):
        if name not in self.values:
            raise PreconditionFailed(f"no value for input {name}")
        return float(self.values[name])

    def reals(self, prefix, n):
        return [self.real(f"{prefix}{i}") for i in range(n)]

    def const(self, x):
        return x

    def assume(self, cond, soft=False):
        if not bool(cond):
            self.failed_assumptions.append(str(cond))
            if self.strict_assume:
                raise PreconditionFailed("assumption false on concrete values")

    def unit(self, name):
        c, s = self.real(name + "_c"), self.real(name + "_s")
        n = math.hypot(c, s)
        if n == 0:
            raise PreconditionFailed("zero unit vector")
        return c / n, s / n

    def hint_unit(self, xname, yname):
        pass

    def choice(self, name, options):
        return options[int(round(float(self.values[name])))]

    def hint_positive(self, name):
        pass

    def hint_value(self, name, value):
        pass

    def eq(self, a, b, tol=None, abs_tol=None):
        a, b = float(a), float(b)
        if abs_tol is not None:
            return abs(a - b) <= abs_tol * (1 + 1e-9) + 1e-12
        t = self.tol if tol is None else tol
        return abs(a - b) <= t * max(1.0, abs(a), abs(b))

    def close(self, a, b, abs_tol):
        return abs(float(a) - float(b)) <= abs_tol * (1 + 1e-9) + 1e-12

    def true(self):
        return True

    def conj(self, conds):
        return all(bool(c) for c in conds)

    def disj(self, conds):
        return any(bool(c) for c in conds)

    def neg(self, c):
        return not bool(c)

    def implies(self, a, b):
        return (not bool(a)) or bool(b)

    def same(self, a, b):
        try:
            return self.eq(a, b)
        except (TypeError, ValueError):
            return a == b

    def note(self, what):
        pass
